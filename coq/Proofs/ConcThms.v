(* ConcThms.v — consequences of the invariant: the aggregates at quiescence
   (C03), the bounds a reader can observe (C12), initial configurations. *)
From PL Require Import Spec.ConcSpec Proofs.ConcBase Proofs.OrderProofs Proofs.ConcInv.
From Coq Require Import Lia ZifyBool ZifyN.
Local Open Scope N_scope.

(* ---- schedules compose: every prefix of a run is a run ---- *)
Lemma exec_app mf s1 : forall s2 c,
  exec mf (s1 ++ s2) c =
  let '(c1, t1) := exec mf s1 c in let '(c2, t2) := exec mf s2 c1 in (c2, t1 ++ t2).
Proof.
  induction s1 as [|i s1 IH]; intros s2 c; cbn [app exec].
  - destruct (exec mf s2 c). reflexivity.
  - destruct (cstep mf c i) as [[c' e]|]; [|apply IH].
    rewrite IH. destruct (exec mf s1 c') as [c1 t1]. destruct (exec mf s2 c1) as [c2 t2].
    reflexivity.
Qed.

Lemma reach_refl mf c : reach mf c c.
Proof. exists []. reflexivity. Qed.

Lemma reach_step mf c0 c i c' e : reach mf c0 c -> cstep mf c i = Some (c', e) -> reach mf c0 c'.
Proof.
  intros [s Hs] Hst. exists (s ++ [i]). rewrite exec_app.
  destruct (exec mf s c0) as [c1 t1]. cbn [fst] in Hs. subst c1.
  cbn [exec]. rewrite Hst. reflexivity.
Qed.

Lemma reach_Inv mf : I_cons mf -> forall c0 c, Inv c0 -> reach mf c0 c ->
  Inv c /\ Supplied c <= Supplied c0 /\ OrdersB c <= OrdersB c0.
Proof. intros HI c0 c H0 [s Hs]. subst c. apply exec_Inv; assumption. Qed.

(* ---- what a reader can see ---- *)
Lemma tsum_pend_le ts price :
  tsum (fun t => pendv (th_pc t)) ts + tsum (fun t => pendh (th_pc t)) ts <= tsum (tbudget price) ts /\
  tsum (fun t => pendc (th_pc t)) ts <= tsum tbc ts.
Proof.
  split.
  - rewrite <- tsum_add. apply tsum_le. intros t. unfold tbudget.
    pose proof (pend_le_budget (th_pc t)). lia.
  - apply tsum_le. intros t. unfold tbc. pose proof (pendc_le_bc (th_pc t)). lia.
Qed.

Lemma Inv_counters c : Inv c ->
  sh_cvis (cf_sh c) + sh_chid (cf_sh c) <= Supplied c /\
  sh_ccnt (cf_sh c) <= OrdersB c /\
  sumv (sh_map (cf_sh c)) <= sh_cvis (cf_sh c) /\
  sumh (sh_map (cf_sh c)) <= sh_chid (cf_sh c) /\
  lenN (sh_map (cf_sh c)) <= sh_ccnt (cf_sh c) /\
  Supplied c < W /\ OrdersB c < W.
Proof.
  intros ((Jv & Jh & Jc) & _ & _ & HB1 & HB2). cbv zeta in *.
  destruct (tsum_pend_le (cf_threads c) (sh_price (cf_sh c))) as (A & B).
  unfold Supplied, OrdersB, sumt in *. repeat split; lia.
Qed.

(* ---- quiescence ---- *)
Lemma thread_finished_pc t : thread_finished t = true -> exists r, th_pc t = Done r /\ th_todo t = [].
Proof.
  unfold thread_finished. destruct (th_pc t); try discriminate.
  destruct (th_todo t); [eauto|discriminate].
Qed.

Lemma quiescent_measures c : quiescent c = true ->
  tsum (fun t => pendv (th_pc t)) (cf_threads c) = 0 /\
  tsum (fun t => pendh (th_pc t)) (cf_threads c) = 0 /\
  tsum (fun t => pendc (th_pc t)) (cf_threads c) = 0 /\
  tsum (tbudget (sh_price (cf_sh c))) (cf_threads c) = 0 /\
  tsum tbc (cf_threads c) = 0.
Proof.
  unfold quiescent. rewrite forallb_forall. intros H.
  repeat split; apply tsum_zero; intros t Ht; destruct (thread_finished_pc t (H t Ht)) as (r & Hp & Htd);
    unfold tbudget, tbc; rewrite Hp, ?Htd; reflexivity.
Qed.

Lemma cnt_le1_NoDup l : (forall x, cnt x l <= 1) -> NoDup l.
Proof.
  induction l as [|y l IH]; intros H; constructor.
  - intros Hin. specialize (H y). rewrite cnt_cons, one_refl in H.
    assert (1 <= cnt y l).
    { clear -Hin. induction l as [|z l IH]; [contradiction|]. rewrite cnt_cons.
      destruct Hin as [->|Hin]; [rewrite one_refl; lia|]. specialize (IH Hin). lia. }
    lia.
  - apply IH. intros x. specialize (H x). rewrite cnt_cons in H. lia.
Qed.

Lemma NoDup_cnt_le1 l : NoDup l -> forall x, cnt x l <= 1.
Proof.
  induction 1 as [|y l Hni Hnd IH]; intros x; [cbn; lia|].
  rewrite cnt_cons. unfold one. destruct (oid_eqb x y) eqn:E; [|specialize (IH x); lia].
  apply oid_eqb_eq in E. subst y.
  assert (cnt x l = 0).
  { clear -Hni. induction l as [|z l IH]; [reflexivity|]. rewrite cnt_cons. unfold one.
    destruct (oid_eqb x z) eqn:E.
    - apply oid_eqb_eq in E. subst. exfalso. apply Hni. left. reflexivity.
    - rewrite IH; [reflexivity|]. intros Hin. apply Hni. right. exact Hin. }
  lia.
Qed.

Lemma Inv_NoDup c : Inv c -> NoDup (ids (sh_map (cf_sh c))).
Proof.
  intros (_ & HK & _). apply cnt_le1_NoDup. intros x. specialize (HK x). unfold idc in HK. lia.
Qed.

Lemma Inv_quiescent c : Inv c -> quiescent c = true ->
  Agg (level_of_shared (cf_sh c)) /\
  Supplied c = sumt (sh_map (cf_sh c)) /\
  OrdersB c = lenN (sh_map (cf_sh c)).
Proof.
  intros ((Jv & Jh & Jc) & _) Hq. cbv zeta in *.
  destruct (quiescent_measures c Hq) as (A & B & C & D & E).
  unfold Agg, resting, Supplied, OrdersB, lenN in *. cbn [level_of_shared cvis chid ccnt lq qmap].
  repeat split; lia.
Qed.

(* ---- initial configurations ---- *)
Lemma thread_init_measures price cs :
  pendv (th_pc (thread_init price cs)) = 0 /\
  pendh (th_pc (thread_init price cs)) = 0 /\
  pendc (th_pc (thread_init price cs)) = 0 /\
  tbudget price (thread_init price cs) = todo_budget price cs /\
  tbc (thread_init price cs) = todo_bc cs /\
  (forall x, cnt x (tids (thread_init price cs)) = cnt x (todo_ids cs)) /\
  pc_ok (th_pc (thread_init price cs)).
Proof.
  destruct cs as [|c cs]; cbn [thread_init].
  - repeat split.
  - rewrite settle_pendv, settle_pendh, settle_pendc, settle_tbudget, settle_tbc.
    destruct (start_asd price c) as (Ha & Hv & Hh & Hc & Hid & Hok & Hb & Hbc & Hf).
    unfold pendv, pendh, pendc, tbudget, tbc, budget, bc, todo_budget, todo_bc. cbn [th_pc th_todo].
    rewrite Ha, Hv, Hh, Hc, Hb, Hbc, !tsum_cons. unfold sumt. rewrite sumv_nil, sumh_nil, lenN_nil.
    repeat split; try lia.
    + intros x. rewrite settle_tids. unfold tids, pids, held, todo_ids. cbn [th_pc th_todo map concat].
      rewrite Ha, Hid, Hf. cbn [ids map app]. rewrite !cnt_app. lia.
    + apply settle_pc_ok. exact Hok.
Qed.

Lemma cnt_concat {A} x (f : A -> list oid) l :
  cnt x (concat (map f l)) = tsum (fun a => cnt x (f a)) l.
Proof.
  induction l as [|a l IH]; [reflexivity|]. cbn [map concat]. rewrite cnt_app, tsum_cons, IH. reflexivity.
Qed.

Lemma init_Inv l gen progs : wf_progs l progs -> Inv (init_config l gen progs).
Proof.
  intros ((Av & Ah & Ac) & Hnd & HB1 & HB2).
  unfold init_config, Inv, J, K, POK, Bound, Supplied, OrdersB.
  cbn [cf_sh cf_threads shared_of_level sh_cvis sh_chid sh_ccnt sh_map sh_price].
  unfold resting in *. rewrite !tsum_map.
  assert (Z : forall (f : thread -> N), (forall cs, f (thread_init (price l) cs) = 0) ->
              tsum (fun cs => f (thread_init (price l) cs)) progs = 0).
  { intros f Hf. apply tsum_zero. intros cs _. apply Hf. }
  rewrite (Z (fun t => pendv (th_pc t))) by (intros cs; apply thread_init_measures).
  rewrite (Z (fun t => pendh (th_pc t))) by (intros cs; apply thread_init_measures).
  rewrite (Z (fun t => pendc (th_pc t))) by (intros cs; apply thread_init_measures).
  rewrite (tsum_ext (fun cs => tbudget (price l) (thread_init (price l) cs)) (todo_budget (price l)))
    by (intros cs; apply thread_init_measures).
  rewrite (tsum_ext (fun cs => tbc (thread_init (price l) cs)) todo_bc)
    by (intros cs; apply thread_init_measures).
  unfold prog_budget, prog_bc, lenN in *.
  split; [repeat split; lia|]. split; [|split; [|split; assumption]].
  - intros x. pose proof (NoDup_cnt_le1 _ Hnd x) as Hx.
    rewrite cnt_app in Hx. unfold prog_ids in Hx. rewrite cnt_concat in Hx.
    rewrite tsum_map.
    rewrite (tsum_ext (fun cs => cnt x (tids (thread_init (price l) cs))) (fun cs => cnt x (todo_ids cs)))
      by (intros cs; apply thread_init_measures).
    unfold idc. exact Hx.
  - rewrite Forall_map. apply Forall_forall. intros cs _. apply thread_init_measures.
Qed.

Lemma init_Supplied l gen progs :
  Supplied (init_config l gen progs) = sumt (resting l) + prog_budget (price l) progs /\
  OrdersB (init_config l gen progs) = lenN (resting l) + prog_bc progs.
Proof.
  unfold init_config, Supplied, OrdersB, prog_budget, prog_bc, resting.
  cbn [cf_sh cf_threads shared_of_level sh_map sh_price]. rewrite !tsum_map.
  rewrite (tsum_ext (fun cs => tbudget (price l) (thread_init (price l) cs)) (todo_budget (price l)))
    by (intros cs; apply thread_init_measures).
  rewrite (tsum_ext (fun cs => tbc (thread_init (price l) cs)) todo_bc)
    by (intros cs; apply thread_init_measures).
  split; reflexivity.
Qed.

(* ---- the values loads return ---- *)
Lemma tstep_load mf p s p' s' x v :
  tstep mf p s = Some (p', s', ELoad x v) ->
  v = get_obj s x /\ s' = s /\
  (p' = Done (RetNum v) \/ p' = Sn2 v \/ (exists a, p' = Sn3 a v) \/ (exists a b, p' = Sn4 a b v)) /\
  (x = OVis \/ x = OHid \/ x = OCnt).
Proof.
  (* the loads are the single-step reads and the first three steps of a snapshot *)
  intros H.
  destruct p; cbn [tstep] in H; unfold fetch_add, fetch_sub in H;
    repeat match type of H with
    | context [if ?c then _ else _] => destruct c; cbv beta iota zeta in H
    | context [match ?d with _ => _ end] => destruct d; cbv beta iota zeta in H
    end; try discriminate; inversion H; subst; cbn [get_obj];
    (split; [reflexivity|split; [reflexivity|split; [|auto]]]);
    first [ left; reflexivity | right; left; reflexivity
          | right; right; left; eexists; reflexivity
          | right; right; right; do 2 eexists; reflexivity ].
Qed.

Definition load_bound (c0 : config) (x : obj) : N :=
  match x with OCnt => OrdersB c0 | _ => Supplied c0 end.

Lemma exec_loads mf : I_cons mf -> forall sched c,
  Inv c ->
  forall i x v, In (i, ELoad x v) (snd (exec mf sched c)) -> v <= load_bound c x /\ v < W.
Proof.
  intros HI. induction sched as [|j rest IH]; intros c Hc i x v Hin; cbn [exec] in Hin.
  - contradiction.
  - destruct (cstep mf c j) as [[c' e]|] eqn:Hs; [|eapply IH; eauto].
    pose proof (cstep_Inv mf HI _ _ _ _ Hc Hs) as Hc'.
    pose proof (cstep_Supplied_le mf HI _ _ _ _ Hc Hs) as (L1 & L2).
    specialize (IH c' Hc' i x v).
    destruct (exec mf rest c') as [c'' tr]. cbn [snd] in *.
    destruct Hin as [Heq|Hin].
    + inversion Heq; subst j e. clear Heq.
      destruct (cstep_unfold mf _ _ _ _ Hs) as (t & p' & s' & Hn & Ht & _).
      destruct (tstep_load mf _ _ _ _ _ _ Ht) as (Hv & _ & _ & Hx).
      destruct (Inv_counters c Hc) as (A & B & _ & _ & _ & C & D).
      unfold load_bound. destruct Hx as [->|[->| ->]]; cbn [get_obj] in Hv; subst v; lia.
    + destruct (IH Hin) as (A & B). split; [|exact B].
      unfold load_bound in *. destruct x; lia.
Qed.

(* ---- statements as used by Properties/C03.v, C12.v ---- *)
Section Cors.
Variable mf : order -> N -> mres.
Hypothesis HI : I_cons mf.

Lemma exec_quiescent_Agg sched c0 :
  Inv c0 ->
  let c := fst (exec mf sched c0) in
  quiescent c = true ->
  Agg (level_of_shared (cf_sh c)) /\ NoDup (ids (sh_map (cf_sh c))).
Proof.
  intros H0 c Hq. destruct (exec_Inv mf HI sched c0 H0) as (Hc & _).
  split; [exact (proj1 (Inv_quiescent _ Hc Hq)) | exact (Inv_NoDup _ Hc)].
Qed.

Lemma exec_ledger0 sched c0 :
  Inv c0 ->
  let g := run_ledger mf sched c0 ledger0 in
  lg_exec g + lg_ret g + lg_disc g + lg_amend g + Supplied (fst (exec mf sched c0)) = Supplied c0.
Proof.
  intros H0 g. pose proof (exec_ledger mf HI sched c0 ledger0 H0) as HL. fold g in HL.
  unfold lg_total in HL. cbn [lg_exec lg_ret lg_disc lg_amend ledger0] in HL. lia.
Qed.

Lemma exec_quiescent_ledger sched c0 :
  Inv c0 ->
  let c := fst (exec mf sched c0) in
  let g := run_ledger mf sched c0 ledger0 in
  quiescent c = true ->
  sumv (sh_map (cf_sh c)) + sumh (sh_map (cf_sh c)) +
    lg_exec g + lg_ret g + lg_disc g + lg_amend g = Supplied c0.
Proof.
  intros H0 c g Hq. destruct (exec_Inv mf HI sched c0 H0) as (Hc & _).
  pose proof (exec_ledger0 sched c0 H0) as HL. cbv zeta in HL. fold c in HL. fold g in HL.
  destruct (Inv_quiescent _ Hc Hq) as (_ & HS & _). fold c in HS. unfold sumt in HS. lia.
Qed.

(* C12: the three counters after any schedule *)
Lemma exec_counters sched c0 :
  Inv c0 ->
  let s := cf_sh (fst (exec mf sched c0)) in
  sh_cvis s <= Supplied c0 /\ sh_chid s <= Supplied c0 /\
  sh_cvis s + sh_chid s <= Supplied c0 /\
  sh_ccnt s <= OrdersB c0 /\
  Supplied c0 < W /\ OrdersB c0 < W /\
  sumv (sh_map s) <= sh_cvis s /\ sumh (sh_map s) <= sh_chid s /\ lenN (sh_map s) <= sh_ccnt s.
Proof.
  intros H0 s. destruct (exec_Inv mf HI sched c0 H0) as (Hc & L1 & L2).
  destruct (Inv_counters _ Hc) as (A & B & C & D & E & _).
  destruct H0 as (_ & _ & _ & B1 & B2). fold s in A, B, C, D, E.
  repeat split; lia.
Qed.

End Cors.

Lemma init_counters l gen progs sched :
  wf_progs l progs ->
  let s := cf_sh (fst (exec match_against sched (init_config l gen progs))) in
  let B := sumv (resting l) + sumh (resting l) + prog_budget (price l) progs in
  sh_cvis s <= B /\ sh_chid s <= B /\ sh_cvis s + sh_chid s <= B /\
  sh_ccnt s <= lenN (resting l) + prog_bc progs /\ B < W /\ lenN (resting l) + prog_bc progs < W.
Proof.
  intros Hwf s B. pose proof (init_Inv l gen progs Hwf) as H0.
  pose proof (exec_counters _ match_against_I_cons sched _ H0) as H. cbv zeta in H. fold s in H.
  destruct (init_Supplied l gen progs) as (E1 & E2). rewrite E1, E2 in H. unfold sumt in H.
  fold B in H. repeat split; lia.
Qed.

(* the example of Spec/ConcExample.v is well formed *)
From PL Require Import Spec.ConcExample.
Lemma ex_wf : wf_progs ex_level ex_progs.
Proof.
  split; [vm_compute; repeat split|]. split; [|split; vm_compute; reflexivity].
  vm_compute. repeat constructor; cbn; intuition discriminate.
Qed.
