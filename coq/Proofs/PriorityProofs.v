(* PriorityProofs.v — property C04 (time priority) as a refinement between the
   concrete level (Model/Level.v) and the ideal level (Spec/Priority.v), and the
   two known deviations K1 / K2 as refutation witnesses. *)
From PL Require Import Spec.Hist Spec.Priority Spec.MatchSpec Proofs.OrderProofs Proofs.PriorityBase.
From Coq Require Import Lia ZifyBool ZifyN.
Local Open Scope N_scope.


(* ====================================================================== *)
(* (b) same-price amend keeps the place                                     *)
(* ====================================================================== *)

Lemma oid_with_reduced o nq : oid_of (with_reduced_quantity o nq) = oid_of o.
Proof. destruct o; reflexivity. Qed.

Lemma amend_found l k nq o :
  lookup k (resting l) = Some o ->
  amend l k nq =
  (let new := with_reduced_quantity o nq in
   mkLevel (price l) (delta (cvis l) (vis o) (vis new)) (delta (chid l) (hid o) (hid new)) (ccnt l)
           (push (mkQueue (remove_key k (qmap (lq l))) (tickets (lq l))) new) (st l),
   UOk (Some (with_reduced_quantity o nq))).
Proof.
  unfold resting. intros H. unfold amend, qfind, qremove. rewrite H. reflexivity.
Qed.

Lemma amend_missing l k nq : lookup k (resting l) = None -> amend l k nq = (l, UOk None).
Proof. unfold resting. intros H. unfold amend, qfind. rewrite H. reflexivity. Qed.

(* the pop order after remove + push of an id that still has a ticket *)
Lemma abs_amend_queue m t k new :
  oid_of new = k -> live m k = true -> In k t ->
  pop_order (upsert new (remove_key k m)) (t ++ [oid_of new]) = pop_order m t.
Proof.
  intros Hid Hlive Hin. rewrite pop_order_snoc, Hid.
  apply memb_In in Hin. rewrite Hin, andb_false_r, app_nil_r.
  apply pop_order_ext. intros x _. rewrite live_upsert, live_remove_key, Hid.
  destruct (oid_eqb x k) eqn:E; cbn.
  - apply oid_eqb_eq in E. subst. symmetry. assumption.
  - rewrite andb_true_r. reflexivity.
Qed.

Lemma amend_keeps_place_abs l k o nq :
  Covered (lq l) -> lookup k (resting l) = Some o ->
  abs (lq (fst (amend l k nq))) = abs (lq l).
Proof.
  intros Hc H. rewrite (amend_found _ _ _ _ H). cbn. unfold abs, push. cbn.
  pose proof (lookup_some_oid _ _ _ H) as Ho.
  apply abs_amend_queue.
  - rewrite oid_with_reduced. assumption.
  - unfold live. unfold resting in H. rewrite H. reflexivity.
  - rewrite <- Ho. apply Hc. eapply lookup_some_In. exact H.
Qed.

(* statement (b), first half, with the premises of the target statement *)
Lemma amend_keeps_place l k o nq :
  NoDup (ids (resting l)) -> Covered (lq l) -> lookup k (resting l) = Some o ->
  abs (lq (fst (amend l k nq))) = abs (lq l).
Proof. intros _. apply amend_keeps_place_abs. Qed.

Lemma lookup_replace_id k new m x :
  oid_of new = k ->
  lookup x (replace_id k new m) =
  if oid_eqb x k then match lookup k m with Some _ => Some new | None => None end
  else lookup x m.
Proof.
  intros Hid. induction m as [|o m IH]; cbn.
  - destruct (oid_eqb x k); reflexivity.
  - destruct (oid_eqb k (oid_of o)) eqn:E; cbn.
    + apply oid_eqb_eq in E. rewrite Hid, <- E. destruct (oid_eqb x k); reflexivity.
    + rewrite IH. destruct (oid_eqb x (oid_of o)) eqn:E2; [|reflexivity].
      apply oid_eqb_eq in E2. subst x. rewrite oid_eqb_sym, E. reflexivity.
Qed.

Lemma ids_replace_id k new m : oid_of new = k -> ids (replace_id k new m) = ids m.
Proof.
  intros Hid. unfold ids. induction m as [|o m IH]; cbn; [reflexivity|].
  destruct (oid_eqb k (oid_of o)) eqn:E; cbn.
  - apply oid_eqb_eq in E. congruence.
  - f_equal. exact IH.
Qed.

#[local] Arguments upsert : simpl never.
#[local] Arguments remove_key : simpl never.
#[local] Arguments ids : simpl never.
#[local] Arguments pop_order : simpl never.
#[local] Arguments lookup : simpl never.

Lemma Aligned_ticket l il k o :
  Aligned l il -> lookup k (resting l) = Some o -> In k (tickets (lq l)).
Proof.
  intros [(_ & _ & Hl) Ha] H. apply abs_sub_tickets. rewrite Ha.
  rewrite Hl in H. pose proof (lookup_some_oid _ _ _ H) as <-.
  apply in_map. eapply lookup_some_In. exact H.
Qed.

(* statement (b), second half *)
Lemma amend_aligned l il k nq :
  Aligned l il ->
  Aligned (fst (amend l k nq)) (fst (iamend il k nq)) /\
  snd (amend l k nq) = snd (iamend il k nq).
Proof.
  intros HA. pose proof HA as [(Hp & Hn & Hl) Ha].
  destruct (lookup k (resting l)) as [o|] eqn:H.
  - pose proof (Aligned_ticket _ _ _ _ HA H) as Ht.
    rewrite (amend_found _ _ _ _ H). unfold iamend. rewrite <- Hl, H. cbn.
    pose proof (lookup_some_oid _ _ _ H) as Ho.
    assert (Hid : oid_of (with_reduced_quantity o nq) = k) by (rewrite oid_with_reduced; assumption).
    split; [|reflexivity].
    unfold Aligned, same_orders, resting, abs, push. cbn. repeat split.
    + assumption.
    + rewrite ids_replace_id by assumption. assumption.
    + intros x. rewrite lookup_upsert, lookup_remove_key, lookup_replace_id by assumption.
      rewrite Hid, <- Hl, H. destruct (oid_eqb x k); [reflexivity | apply Hl].
    + rewrite ids_replace_id by assumption. rewrite <- Ha. unfold abs.
      apply abs_amend_queue; try assumption.
      unfold live. unfold resting in H. rewrite H. reflexivity.
  - rewrite (amend_missing _ _ _ H). unfold iamend. rewrite <- Hl, H. cbn. auto.
Qed.

(* ====================================================================== *)
(* (c) cancel / price move                                                  *)
(* ====================================================================== *)

Lemma take_out_found l k o :
  lookup k (resting l) = Some o ->
  take_out l k =
  (mkLevel (price l) (wsub (cvis l) (vis o)) (wsub (chid l) (hid o)) (wsub (ccnt l) 1)
           (mkQueue (remove_key k (qmap (lq l))) (tickets (lq l))) (record_removed (st l)),
   UOk (Some o)).
Proof. unfold resting. intros H. unfold take_out, qremove. rewrite H. reflexivity. Qed.

Lemma take_out_missing l k : lookup k (resting l) = None -> take_out l k = (l, UOk None).
Proof. unfold resting. intros H. unfold take_out, qremove. rewrite H. reflexivity. Qed.

Lemma take_out_aligned l il k :
  Aligned l il ->
  Aligned (fst (take_out l k)) (fst (itake_out il k)) /\
  snd (take_out l k) = snd (itake_out il k).
Proof.
  intros HA. pose proof HA as [(Hp & Hn & Hl) Ha].
  destruct (lookup k (resting l)) as [o|] eqn:H.
  - rewrite (take_out_found _ _ _ H). unfold itake_out. rewrite <- Hl, H. cbn.
    split; [|reflexivity].
    unfold Aligned, same_orders, resting, abs. cbn. repeat split.
    + assumption.
    + rewrite ids_remove_key. apply NoDup_filter. assumption.
    + intros x. rewrite !lookup_remove_key. destruct (oid_eqb x k); [reflexivity | apply Hl].
    + rewrite pop_order_remove_key, ids_remove_key. fold (abs (lq l)). rewrite Ha. reflexivity.
  - rewrite (take_out_missing _ _ H). unfold itake_out. rewrite <- Hl, H. cbn. auto.
Qed.

Lemma take_out_live_tickets l k :
  NoDup (live_tickets (lq l)) -> NoDup (live_tickets (lq (fst (take_out l k)))).
Proof.
  intros Hn. destruct (lookup k (resting l)) as [o|] eqn:H.
  - rewrite (take_out_found _ _ _ H). cbn. unfold live_tickets. cbn.
    eapply NoDup_filter_sub; [|exact Hn].
    intros x _. fold (live (remove_key k (qmap (lq l))) x). rewrite live_remove_key.
    intros Hx. apply andb_true_iff in Hx. tauto.
  - rewrite (take_out_missing _ _ H). assumption.
Qed.

Lemma take_out_aligned_strong l il k :
  AlignedStrong l il ->
  AlignedStrong (fst (take_out l k)) (fst (itake_out il k)) /\
  snd (take_out l k) = snd (itake_out il k).
Proof.
  intros [HA Hn]. destruct (take_out_aligned l il k HA) as [H1 H2].
  split; [|assumption]. split; [assumption | apply take_out_live_tickets; assumption].
Qed.

(* the whole update operation, from a (weakly) aligned pair *)
Lemma update_aligned l il u :
  Aligned l il ->
  Aligned (fst (update_order l u)) (fst (iupdate il u)) /\
  snd (update_order l u) = snd (iupdate il u).
Proof.
  intros HA. pose proof HA as [(Hp & _) _].
  destruct u as [k np|k nq|k np nq|k|k p q s]; cbn [update_order iupdate]; rewrite <- ?Hp.
  - destruct (np =? price l); [cbn; auto | apply take_out_aligned; assumption].
  - apply amend_aligned; assumption.
  - destruct (np =? price l); [apply amend_aligned | apply take_out_aligned]; assumption.
  - apply take_out_aligned; assumption.
  - destruct (p =? price l); [apply amend_aligned | apply take_out_aligned]; assumption.
Qed.

(* ====================================================================== *)
(* (d) add joins at the back                                                *)
(* ====================================================================== *)

Lemma add_aligned_strong l il o :
  AlignedStrong l il -> lookup (oid_of o) (resting l) = None -> ~ In (oid_of o) (tickets (lq l)) ->
  AlignedStrong (add_order l o) (iadd il o).
Proof.
  intros HA Hnone Hnt. apply AlignedStrong_Rep in HA. destruct HA as [Hp HR].
  apply AlignedStrong_Rep. cbn. split; [assumption|].
  apply Rep_push; try assumption.
  destruct HR as (Hl & _). rewrite <- Hl. assumption.
Qed.

(* ====================================================================== *)
(* (e) one match from an aligned state                                      *)
(* ====================================================================== *)

Lemma NoDup_ids_move (a b : list order) (o u : order) :
  oid_of u = oid_of o -> NoDup (ids (a ++ o :: b)) -> NoDup (ids (a ++ b ++ [u])).
Proof.
  intros Hid H. rewrite !ids_app in *. change (ids (o :: b)) with (oid_of o :: ids b) in H.
  change (ids [u]) with [oid_of u]. rewrite Hid.
  eapply Permutation_NoDup; [|exact H].
  apply Permutation_app_head. apply Permutation_cons_append.
Qed.

Lemma NoDup_ids_drop (a b : list order) (o : order) :
  NoDup (ids (a ++ o :: b)) -> NoDup (ids (a ++ b)) /\ ~ In (oid_of o) (ids (a ++ b)).
Proof.
  intros H. rewrite !ids_app in *. change (ids (o :: b)) with (oid_of o :: ids b) in H.
  split; [eapply NoDup_remove_1 | eapply NoDup_remove_2]; exact H.
Qed.

Section Loops.
Variable mf : order -> N -> mres.

(* the "set aside / passed over" test of both loops *)
Definition passes (o : order) (rem : N) : bool :=
  let r := mf o rem in
  (m_consumed r =? 0) && (m_hidden_reduced r =? 0) && is_some (m_updated r).

(* generator and result after visiting [o] with [rem] still wanted *)
Definition tally (p : N) (taker : oid) (o : order) (rem gen : N) (res : result) : N * result :=
  let r := mf o rem in
  if 0 <? m_consumed r then
    let t := mkTx gen taker (oid_of o) p (m_consumed r) (opposite (side_of o)) in
    let res' := add_transaction res t in
    (wadd gen 1, if is_some (m_updated r) then res' else add_filled res' (oid_of o))
  else (gen, res).

(* The concrete discipline on a plain list: every surviving maker goes to the
   tail, passed-over makers are set aside (and re-queued at the end by finish). *)
Fixpoint cloop (fuel : nat) (p : N) (taker : oid) (cq aside : list order)
         (gen : N) (res : result) (rem : N)
  : option (list order * list order * N * result * N) :=
  if rem =? 0 then Some (cq, aside, gen, res, rem) else
  match fuel with
  | O => None
  | S f =>
      match cq with
      | [] => Some ([], aside, gen, res, rem)
      | o :: cq' =>
          if passes o rem then cloop f p taker cq' (aside ++ [o]) gen res rem
          else
            let '(gen1, res1) := tally p taker o rem gen res in
            match m_updated (mf o rem) with
            | None => cloop f p taker cq' aside gen1 res1 (m_remaining (mf o rem))
            | Some u => cloop f p taker (cq' ++ [u]) aside gen1 res1 (m_remaining (mf o rem))
            end
      end
  end.

Lemma cloop_eq fuel p taker cq aside gen res rem :
  cloop fuel p taker cq aside gen res rem =
  if rem =? 0 then Some (cq, aside, gen, res, rem) else
  match fuel with
  | O => None
  | S f =>
      match cq with
      | [] => Some ([], aside, gen, res, rem)
      | o :: cq' =>
          if passes o rem then cloop f p taker cq' (aside ++ [o]) gen res rem
          else
            let '(gen1, res1) := tally p taker o rem gen res in
            match m_updated (mf o rem) with
            | None => cloop f p taker cq' aside gen1 res1 (m_remaining (mf o rem))
            | Some u => cloop f p taker (cq' ++ [u]) aside gen1 res1 (m_remaining (mf o rem))
            end
      end
  end.
Proof. destruct fuel; reflexivity. Qed.

Lemma imatch_loop_eq fuel p taker passed rest gen res rem :
  imatch_loop mf fuel p taker passed rest gen res rem =
  if rem =? 0 then Some (passed ++ rest, gen, res, rem) else
  match fuel with
  | O => None
  | S f =>
      match rest with
      | [] => Some (passed, gen, res, rem)
      | o :: rest' =>
          if passes o rem then imatch_loop mf f p taker (passed ++ [o]) rest' gen res rem
          else
            let '(gen1, res1) := tally p taker o rem gen res in
            match m_updated (mf o rem) with
            | None => imatch_loop mf f p taker passed rest' gen1 res1 (m_remaining (mf o rem))
            | Some u =>
                if 0 <? m_hidden_reduced (mf o rem)
                then imatch_loop mf f p taker passed (rest' ++ [u]) gen1 res1 (m_remaining (mf o rem))
                else imatch_loop mf f p taker passed (u :: rest') gen1 res1 (m_remaining (mf o rem))
            end
      end
  end.
Proof. destruct fuel; reflexivity. Qed.

Lemma match_loop_eq fuel taker s :
  match_loop mf fuel taker s =
  if ms_rem s =? 0 then Some s else
  match fuel with
  | O => None
  | S f =>
      match pop (lq (ms_lvl s)) with
      | (None, q') =>
          Some (mkMstate (set_queue (ms_lvl s) q') (ms_gen s) (ms_res s) (ms_rem s) (ms_aside s))
      | (Some o, q') =>
          let l := set_queue (ms_lvl s) q' in
          if passes o (ms_rem s) then
            match_loop mf f taker (mkMstate l (ms_gen s) (ms_res s) (ms_rem s) (ms_aside s ++ [o]))
          else
            let '(l', gen', res', rem') := visit mf l (ms_gen s) (ms_res s) taker (ms_rem s) o in
            match_loop mf f taker (mkMstate l' gen' res' rem' (ms_aside s))
      end
  end.
Proof. destruct fuel; reflexivity. Qed.

Lemma visit_spec l gen res taker rem o :
  exists l',
    visit mf l gen res taker rem o =
      (l', fst (tally (price l) taker o rem gen res), snd (tally (price l) taker o rem gen res),
       m_remaining (mf o rem)) /\
    price l' = price l /\
    lq l' = match m_updated (mf o rem) with Some u => push (lq l) u | None => lq l end.
Proof.
  unfold visit, tally.
  destruct (0 <? m_consumed (mf o rem)); destruct (m_updated (mf o rem)) as [u|];
    try destruct (0 <? m_hidden_reduced (mf o rem));
    eexists; (split; [reflexivity | split; reflexivity]).
Qed.

(* ---------- stage 1: the concrete loop is [cloop] on the represented list ---------- *)
Definition Inv (q : queue) (aside cq : list order) : Prop :=
  Rep q cq /\ NoDup (ids (aside ++ cq)) /\
  (forall a, In a aside -> ~ In (oid_of a) (tickets q)).

Hypothesis Hid : I_id mf.

Lemma updated_oid o inc u : m_updated (mf o inc) = Some u -> oid_of u = oid_of o.
Proof. intros H. symmetry. apply same_identity_oid. eapply Hid. exact H. Qed.

Lemma match_loop_cloop fuel : forall taker s s' cq,
  match_loop mf fuel taker s = Some s' ->
  Inv (lq (ms_lvl s)) (ms_aside s) cq ->
  exists cq',
    cloop fuel (price (ms_lvl s)) taker cq (ms_aside s) (ms_gen s) (ms_res s) (ms_rem s)
      = Some (cq', ms_aside s', ms_gen s', ms_res s', ms_rem s') /\
    Inv (lq (ms_lvl s')) (ms_aside s') cq' /\
    price (ms_lvl s') = price (ms_lvl s).
Proof.
  induction fuel as [|f IH]; intros taker s s' cq H HI;
    rewrite match_loop_eq in H; rewrite cloop_eq;
    destruct (ms_rem s =? 0) eqn:Erem.
  - inversion H; subst. eauto.
  - discriminate.
  - inversion H; subst. eauto.
  - destruct HI as (HR & Hnd & Hat).
    destruct cq as [|o cq0].
    + destruct (Rep_pop_nil _ HR) as (q' & Hpop & HR' & Ht'). rewrite Hpop in H.
      inversion H; subst. cbn. eexists. split; [reflexivity|]. split; [|reflexivity].
      split; [assumption|]. split; [assumption|]. intros a _. rewrite Ht'. intros [].
    + destruct (Rep_pop_cons _ _ _ HR) as (q' & Hpop & HR' & Hnt & Hsub). rewrite Hpop in H.
      cbv zeta in H.
      destruct (passes o (ms_rem s)) eqn:Epass.
      * apply IH with (cq := cq0) in H.
        -- cbn in H. exact H.
        -- cbn. split; [assumption|]. split.
           ++ rewrite <- app_assoc. exact Hnd.
           ++ intros a Ha. apply in_app_or in Ha. destruct Ha as [Ha|[<-|[]]]; [|assumption].
              intros Hin. apply (Hat a Ha). apply Hsub. assumption.
      * destruct (visit_spec (set_queue (ms_lvl s) q') (ms_gen s) (ms_res s) taker (ms_rem s) o)
          as (l1 & Ev & Hp1 & Hq1).
        rewrite Ev in H. cbn [set_queue price lq] in Hp1, Hq1.
        destruct (tally (price (ms_lvl s)) taker o (ms_rem s) (ms_gen s) (ms_res s)) as [g1 r1] eqn:Et.
        cbn [set_queue price] in H. rewrite Et in H. cbn [fst snd] in H.
        destruct (m_updated (mf o (ms_rem s))) as [u|] eqn:Eu.
        -- pose proof (updated_oid _ _ _ Eu) as Hou.
           destruct (NoDup_ids_drop _ _ _ Hnd) as [Hnd' Hno].
           apply IH with (cq := cq0 ++ [u]) in H.
           ++ cbn [ms_lvl ms_aside ms_gen ms_res ms_rem] in H. rewrite Hp1 in H. exact H.
           ++ cbn [ms_lvl ms_aside]. rewrite Hq1. split; [|split].
              ** apply Rep_push; [assumption | rewrite Hou; assumption |].
                 rewrite Hou. apply lookup_none_ids. intros Hin. apply Hno.
                 rewrite ids_app. apply in_or_app. right. assumption.
              ** eapply NoDup_ids_move; eassumption.
              ** intros a Ha. unfold push. cbn [tickets]. intros Hin.
                 apply in_app_or in Hin. destruct Hin as [Hin|[Hin|[]]].
                 --- apply (Hat a Ha). apply Hsub. assumption.
                 --- apply Hno. rewrite ids_app. apply in_or_app. left.
                     rewrite <- Hou, Hin. apply in_map. assumption.
        -- destruct (NoDup_ids_drop _ _ _ Hnd) as [Hnd' Hno].
           apply IH with (cq := cq0) in H.
           ++ cbn [ms_lvl ms_aside ms_gen ms_res ms_rem] in H. rewrite Hp1 in H. exact H.
           ++ cbn [ms_lvl ms_aside]. rewrite Hq1. split; [assumption|]. split; [assumption|].
              intros a Ha Hin. apply (Hat a Ha). apply Hsub. assumption.
Qed.

Lemma Rep_push_all : forall aside q cq,
  Rep q cq -> NoDup (ids (aside ++ cq)) ->
  (forall a, In a aside -> ~ In (oid_of a) (tickets q)) ->
  Rep (fold_left push aside q) (cq ++ aside).
Proof.
  induction aside as [|a aside IH]; intros q cq HR Hnd Hat; cbn [fold_left].
  - rewrite app_nil_r. assumption.
  - replace (cq ++ a :: aside) with ((cq ++ [a]) ++ aside) by (rewrite <- app_assoc; reflexivity).
    pose proof (NoDup_ids_drop [] _ _ Hnd) as [_ Hno]. cbn [app] in Hno.
    apply IH.
    + apply Rep_push; [assumption | apply Hat; left; reflexivity |].
      apply lookup_none_ids. intros Hin. apply Hno. rewrite ids_app. apply in_or_app. auto.
    + apply (NoDup_ids_move [] (aside ++ cq) a a eq_refl) in Hnd. cbn [app] in Hnd.
      rewrite <- app_assoc in Hnd. exact Hnd.
    + intros b Hb. unfold push. cbn [tickets]. intros Hin.
      apply in_app_or in Hin. destruct Hin as [Hin|[Hin|[]]].
      * apply (Hat b (or_intror Hb)). assumption.
      * apply Hno. rewrite ids_app. apply in_or_app. left. rewrite Hin. apply in_map. assumption.
Qed.

(* the concrete match, from a represented queue, is [cloop] + re-queueing of the
   set-aside orders at the end *)
Lemma match_order_cloop fuel l g qty taker l' g' r cq :
  match_order mf fuel l g qty taker = Some (l', g', r) ->
  Rep (lq l) cq ->
  exists cq' aside' res' rem',
    cloop fuel (price l) taker cq [] g (result_new taker qty) qty = Some (cq', aside', g', res', rem') /\
    r = mkResult (r_taker res') (r_txs res') rem' (rem' =? 0) (r_filled res') /\
    price l' = price l /\ Rep (lq l') (cq' ++ aside').
Proof.
  unfold match_order. intros H HR.
  destruct (match_loop mf fuel taker (mkMstate l g (result_new taker qty) qty [])) as [s'|] eqn:E;
    [|discriminate].
  apply match_loop_cloop with (cq := cq) in E.
  2:{ cbn. split; [assumption|]. split; [apply HR|]. intros a []. }
  destruct E as (cq' & Ec & (HR' & Hnd' & Hat') & Hp). cbn in Ec, Hp.
  unfold finish in H. inversion H; subst. clear H.
  exists cq', (ms_aside s'), (ms_res s'), (ms_rem s').
  split; [exact Ec|]. split; [reflexivity|]. split; [exact Hp|].
  cbn. apply Rep_push_all; assumption.
Qed.

(* ---------- stage 2a: same transactions, same remaining ---------- *)

(* an order that is passed over whatever the incoming quantity *)
Definition inert (o : order) : Prop := forall inc, passes o inc = true.

(* A maker that survives a visit without being replenished either ends the match
   or displays nothing from then on. *)
Definition I_rest : Prop :=
  forall o inc u,
    passes o inc = false ->
    m_updated (mf o inc) = Some u -> m_hidden_reduced (mf o inc) = 0 ->
    m_remaining (mf o inc) = 0 \/ inert u.

(* [rest] is [cq] without some inert orders *)
Inductive Skip : list order -> list order -> Prop :=
| skip_nil : Skip [] []
| skip_same o cq rest : Skip cq rest -> Skip (o :: cq) (o :: rest)
| skip_inert o cq rest : inert o -> Skip cq rest -> Skip (o :: cq) rest.

Lemma Skip_refl cq : Skip cq cq.
Proof. induction cq; constructor; assumption. Qed.

Lemma Skip_app a b c d : Skip a b -> Skip c d -> Skip (a ++ c) (b ++ d).
Proof. induction 1; cbn; intros; try constructor; auto. Qed.

Lemma Skip_snoc_same a b u : Skip a b -> Skip (a ++ [u]) (b ++ [u]).
Proof. intros H. apply Skip_app; [assumption | apply Skip_refl]. Qed.

Lemma Skip_snoc_inert a b u : inert u -> Skip a b -> Skip (a ++ [u]) b.
Proof.
  intros Hu H. rewrite <- (app_nil_r b). apply Skip_app; [assumption|].
  apply skip_inert; [assumption | constructor].
Qed.

Lemma Skip_nil_inv rest : Skip [] rest -> rest = [].
Proof. inversion 1; reflexivity. Qed.

Hypothesis Hrest : I_rest.

Lemma cloop_iloop_results fuel : forall p taker cq aside gen res rem cq' aside' g' r' rem',
  cloop fuel p taker cq aside gen res rem = Some (cq', aside', g', r', rem') ->
  forall rest, Skip cq rest ->
  forall passed, exists fuel' os,
    imatch_loop mf fuel' p taker passed rest gen res rem = Some (os, g', r', rem').
Proof.
  induction fuel as [|f IH]; intros p taker cq aside gen res rem cq' aside' g' r' rem' H rest HS passed;
    rewrite cloop_eq in H; destruct (rem =? 0) eqn:Erem.
  - inversion H; subst. exists O. eexists. rewrite imatch_loop_eq, Erem. reflexivity.
  - discriminate.
  - inversion H; subst. exists O. eexists. rewrite imatch_loop_eq, Erem. reflexivity.
  - destruct cq as [|o cq0].
    + inversion H; subst. apply Skip_nil_inv in HS. subst.
      exists 1%nat. eexists. rewrite imatch_loop_eq, Erem. reflexivity.
    + inversion HS as [|o1 cq1 rest0 HS0|o1 cq1 rest1 Hin HS0]; subst.
      * (* the ideal head is the same order *)
        destruct (passes o rem) eqn:Epass.
        -- destruct (IH _ _ _ _ _ _ _ _ _ _ _ _ H _ HS0 (passed ++ [o])) as (f' & os & E).
           exists (S f'). exists os. rewrite imatch_loop_eq, Erem, Epass. exact E.
        -- destruct (tally p taker o rem gen res) as [g1 r1] eqn:Et.
           destruct (m_updated (mf o rem)) as [u|] eqn:Eu.
           ++ destruct (0 <? m_hidden_reduced (mf o rem)) eqn:Ehr.
              ** destruct (IH _ _ _ _ _ _ _ _ _ _ _ _ H _ (Skip_snoc_same _ _ u HS0) passed)
                   as (f' & os & E).
                 exists (S f'). exists os. rewrite imatch_loop_eq, Erem, Epass, Et, Eu, Ehr. exact E.
              ** assert (Hhr0 : m_hidden_reduced (mf o rem) = 0) by lia.
                 destruct (Hrest o rem u Epass Eu Hhr0) as [Hz|Hinert].
                 --- (* the match ends here *)
                     rewrite cloop_eq in H. rewrite Hz in H. cbn in H. inversion H; subst.
                     exists 1%nat. eexists.
                     rewrite imatch_loop_eq, Erem, Epass, Et, Eu, Ehr.
                     rewrite imatch_loop_eq, Hz. reflexivity.
                 --- (* the survivor displays nothing: it is passed over in the ideal, inert in the concrete *)
                     destruct (m_remaining (mf o rem) =? 0) eqn:Ez.
                     +++ rewrite cloop_eq, Ez in H. inversion H; subst.
                         exists 1%nat. eexists.
                         rewrite imatch_loop_eq, Erem, Epass, Et, Eu, Ehr.
                         rewrite imatch_loop_eq, Ez. reflexivity.
                     +++ destruct (IH _ _ _ _ _ _ _ _ _ _ _ _ H _ (Skip_snoc_inert _ _ u Hinert HS0)
                                      (passed ++ [u])) as (f' & os & E).
                         exists (S (S f')). exists os.
                         rewrite imatch_loop_eq, Erem, Epass, Et, Eu, Ehr.
                         rewrite imatch_loop_eq, Ez, (Hinert _). exact E.
           ++ destruct (IH _ _ _ _ _ _ _ _ _ _ _ _ H _ HS0 passed) as (f' & os & E).
              exists (S f'). exists os. rewrite imatch_loop_eq, Erem, Epass, Et, Eu. exact E.
      * (* an inert order the ideal has already passed *)
        rewrite (Hin rem) in H.
        exact (IH _ _ _ _ _ _ _ _ _ _ _ _ H _ HS0 passed).
Qed.

End Loops.

(* ---------- stage 2b: when alignment survives the match ---------- *)
Section Survive.
Variable mf : order -> N -> mres.

Definition nilb {A} (l : list A) : bool := match l with [] => true | _ => false end.

Lemma nilb_true {A} (l : list A) : nilb l = true -> l = [].
Proof. destruct l; [reflexivity | discriminate]. Qed.

(* [k1_free fuel passed rest rem]: the ideal loop, started with [passed] already
   passed over, [rest] ahead and [rem] wanted, never
     - leaves a surviving, unreplenished maker at the head with orders behind it
       (or with orders passed over before it, or with quantity still wanted), and
     - does not end with orders passed over while others are still queued.
   These are exactly the situations in which the concrete queue re-queues at the
   tail an order that should have kept its place (finding K1). *)
Fixpoint k1_free (fuel : nat) (passed rest : list order) (rem : N) : bool :=
  if rem =? 0 then nilb passed || nilb rest else
  match fuel with
  | O => true
  | S f =>
      match rest with
      | [] => true
      | o :: rest' =>
          if passes mf o rem then k1_free f (passed ++ [o]) rest' rem
          else
            match m_updated (mf o rem) with
            | None => k1_free f passed rest' (m_remaining (mf o rem))
            | Some u =>
                if 0 <? m_hidden_reduced (mf o rem)
                then k1_free f passed (rest' ++ [u]) (m_remaining (mf o rem))
                else (m_remaining (mf o rem) =? 0) && nilb passed && nilb rest'
            end
      end
  end.

Lemma k1_free_eq fuel passed rest rem :
  k1_free fuel passed rest rem =
  if rem =? 0 then nilb passed || nilb rest else
  match fuel with
  | O => true
  | S f =>
      match rest with
      | [] => true
      | o :: rest' =>
          if passes mf o rem then k1_free f (passed ++ [o]) rest' rem
          else
            match m_updated (mf o rem) with
            | None => k1_free f passed rest' (m_remaining (mf o rem))
            | Some u =>
                if 0 <? m_hidden_reduced (mf o rem)
                then k1_free f passed (rest' ++ [u]) (m_remaining (mf o rem))
                else (m_remaining (mf o rem) =? 0) && nilb passed && nilb rest'
            end
      end
  end.
Proof. destruct fuel; reflexivity. Qed.

Lemma cloop_iloop_lockstep fuel : forall p taker rest passed gen res rem cq' aside' g' r' rem',
  cloop mf fuel p taker rest passed gen res rem = Some (cq', aside', g', r', rem') ->
  k1_free fuel passed rest rem = true ->
  imatch_loop mf fuel p taker passed rest gen res rem = Some (cq' ++ aside', g', r', rem').
Proof.
  induction fuel as [|f IH]; intros p taker rest passed gen res rem cq' aside' g' r' rem' H HK;
    rewrite cloop_eq in H; rewrite k1_free_eq in HK; rewrite imatch_loop_eq;
    destruct (rem =? 0) eqn:Erem.
  - inversion H; subst. apply orb_true_iff in HK.
    destruct HK as [HK|HK]; apply nilb_true in HK; subst; rewrite ?app_nil_r; reflexivity.
  - discriminate.
  - inversion H; subst. apply orb_true_iff in HK.
    destruct HK as [HK|HK]; apply nilb_true in HK; subst; rewrite ?app_nil_r; reflexivity.
  - destruct rest as [|o rest0].
    + inversion H; subst. reflexivity.
    + destruct (passes mf o rem) eqn:Epass.
      * apply IH; assumption.
      * destruct (tally mf p taker o rem gen res) as [g1 r1] eqn:Et.
        destruct (m_updated (mf o rem)) as [u|] eqn:Eu.
        -- destruct (0 <? m_hidden_reduced (mf o rem)) eqn:Ehr.
           ++ apply IH; assumption.
           ++ apply andb_true_iff in HK. destruct HK as [HK H3].
              apply andb_true_iff in HK. destruct HK as [H1 H2].
              apply nilb_true in H2, H3. subst passed rest0.
              rewrite cloop_eq, H1 in H. inversion H; subst.
              rewrite imatch_loop_eq, H1. reflexivity.
        -- apply IH; assumption.
Qed.

(* ---------- the two theorems about one match ---------- *)

(* (e), first half: from a strongly aligned state one concrete match produces
   exactly the ideal transactions: same makers, same order, same quantities,
   same remaining / complete / filled, same generator value afterwards. *)
Theorem match_refines fuel l il g qty taker l' g' r :
  I_id mf -> I_rest mf ->
  AlignedStrong l il ->
  match_order mf fuel l g qty taker = Some (l', g', r) ->
  exists fuel' il', imatch mf fuel' il g qty taker = Some (il', g', r).
Proof.
  intros Hid Hrest HA H. apply AlignedStrong_Rep in HA. destruct HA as [Hp HR].
  destruct (match_order_cloop mf Hid _ _ _ _ _ _ _ _ _ H HR)
    as (cq' & aside' & res' & rem' & Hc & Hr & _ & _).
  destruct (cloop_iloop_results mf Hrest _ _ _ _ _ _ _ _ _ _ _ _ _ Hc _ (Skip_refl mf _) [])
    as (fuel' & os & E).
  exists fuel'. unfold imatch. rewrite <- Hp, E. eexists. rewrite Hr. reflexivity.
Qed.

(* (e), second half: alignment survives the match when the match is K1-free. *)
Theorem match_alignment_survives fuel l il g qty taker l' g' r :
  I_id mf ->
  AlignedStrong l il ->
  match_order mf fuel l g qty taker = Some (l', g', r) ->
  k1_free fuel [] (iorders il) qty = true ->
  exists il', imatch mf fuel il g qty taker = Some (il', g', r) /\ AlignedStrong l' il'.
Proof.
  intros Hid HA H HK. apply AlignedStrong_Rep in HA. destruct HA as [Hp HR].
  destruct (match_order_cloop mf Hid _ _ _ _ _ _ _ _ _ H HR)
    as (cq' & aside' & res' & rem' & Hc & Hr & Hp' & HR').
  pose proof (cloop_iloop_lockstep _ _ _ _ _ _ _ _ _ _ _ _ _ Hc HK) as E.
  unfold imatch. rewrite <- Hp, E. eexists. split; [rewrite Hr; reflexivity|].
  apply AlignedStrong_Rep. cbn. split; [congruence | assumption].
Qed.

End Survive.

(* ---------- the extra interface clause holds of match_against ---------- *)
Lemma I_cons_I_id mf : I_cons mf -> I_id mf.
Proof.
  intros H o inc u Hu. destruct (H o inc) as (_ & _ & H3). rewrite Hu in H3. apply H3.
Qed.

Lemma match_against_I_rest : I_rest match_against.
Proof.
  intros o inc u _ Hu Hhr.
  destruct o as [c q|c v h|c q|c q t l|c q off p|c q|c v h thr amt au]; cbn [match_against] in Hu, Hhr |- *.
  1,3,4,5,6:
    destruct (q <=? inc); cbn in Hu |- *; [discriminate | left; reflexivity].
  - (* Iceberg *)
    destruct (v <=? inc) eqn:Ev; [|left; reflexivity].
    destruct (0 <? h) eqn:Eh; cbn in Hu, Hhr |- *; [|discriminate].
    right. inversion Hu; subst u. clear Hu.
    assert (v = 0) by lia. subst v.
    intros inc'. unfold passes. cbn [match_against].
    replace (N.min h 0) with 0 by lia. replace (h - 0) with h by lia.
    replace (0 <=? inc') with true by lia. rewrite Eh. cbn. lia.
  - (* Reserve *)
    destruct (v <=? inc) eqn:Ev.
    + destruct ((0 <? h) && au) eqn:Eha; cbn in Hu, Hhr |- *; [|discriminate].
      right. inversion Hu; subst u. clear Hu.
      rewrite Hhr. replace (h - 0) with h by lia.
      intros inc'. unfold passes. cbn [match_against].
      replace (0 <=? inc') with true by lia. rewrite Eha. cbn. rewrite Hhr. lia.
    + left.
      destruct ((v - inc <? (if au && (thr =? 0) then 1 else thr)) && (0 <? h) && au);
        reflexivity.
Qed.

(* ====================================================================== *)
(* (f) histories                                                            *)
(* ====================================================================== *)
Section Histories.
Variable mf : order -> N -> mres.

Lemma imatch_loop_mono fuel : forall p taker passed rest gen res rem x,
  imatch_loop mf fuel p taker passed rest gen res rem = Some x ->
  imatch_loop mf (S fuel) p taker passed rest gen res rem = Some x.
Proof.
  induction fuel as [|f IH]; intros p taker passed rest gen res rem x H;
    rewrite imatch_loop_eq in H; rewrite imatch_loop_eq; destruct (rem =? 0); try assumption.
  - discriminate.
  - destruct rest as [|o rest0]; [assumption|].
    destruct (passes mf o rem); [apply IH; assumption|].
    destruct (tally mf p taker o rem gen res) as [g1 r1].
    destruct (m_updated (mf o rem)); [destruct (0 <? m_hidden_reduced (mf o rem))|];
      apply IH; assumption.
Qed.

Lemma imatch_loop_mono_add n : forall fuel p taker passed rest gen res rem x,
  imatch_loop mf fuel p taker passed rest gen res rem = Some x ->
  imatch_loop mf (n + fuel) p taker passed rest gen res rem = Some x.
Proof.
  induction n as [|n IH]; intros; cbn [Nat.add]; [assumption|].
  apply imatch_loop_mono. apply IH. assumption.
Qed.

(* the ideal match is a function: the fuel only has to be enough *)
Lemma imatch_det f1 f2 il g qty taker a b :
  imatch mf f1 il g qty taker = Some a -> imatch mf f2 il g qty taker = Some b -> a = b.
Proof.
  unfold imatch. intros H1 H2.
  destruct (imatch_loop mf f1 (iprice il) taker [] (iorders il) g (result_new taker qty) qty)
    as [x1|] eqn:E1; [|discriminate].
  destruct (imatch_loop mf f2 (iprice il) taker [] (iorders il) g (result_new taker qty) qty)
    as [x2|] eqn:E2; [|discriminate].
  apply (imatch_loop_mono_add f2) in E1. apply (imatch_loop_mono_add f1) in E2.
  rewrite Nat.add_comm in E2. rewrite E1 in E2. inversion E2; subst. congruence.
Qed.

(* the ideal system: ideal level and transaction-id generator *)
Definition isys : Type := ilevel * N.

(* operations inside the quantifier of C04 *)
Definition c04_op (o : op) : Prop :=
  match o with OAdd _ | OMatch _ _ | OUpdate _ => True | _ => False end.

Inductive istep : isys -> op -> isys -> out -> Prop :=
| ISAdd il g o : istep (il, g) (OAdd o) (iadd il o, g) (OutAdd o)
| ISMatch il g qty taker fuel il' g' r :
    imatch mf fuel il g qty taker = Some (il', g', r) ->
    istep (il, g) (OMatch qty taker) (il', g') (OutMatch r)
| ISUpdate il g u il' uo :
    iupdate il u = (il', uo) ->
    istep (il, g) (OUpdate u) (il', g) (OutUpdate uo).

Inductive isteps : isys -> list op -> isys -> list out -> Prop :=
| isteps_nil i : isteps i [] i []
| isteps_cons i o i1 y ops i' ys :
    istep i o i1 y -> isteps i1 ops i' ys -> isteps i (o :: ops) i' (y :: ys).

Lemma istep_det i o i1 y1 i2 y2 : istep i o i1 y1 -> istep i o i2 y2 -> i1 = i2 /\ y1 = y2.
Proof.
  intros H1 H2. inversion H1; subst; inversion H2; subst.
  - auto.
  - match goal with A : imatch _ _ _ _ _ _ = Some _, B : imatch _ _ _ _ _ _ = Some _ |- _ =>
      pose proof (imatch_det _ _ _ _ _ _ _ _ A B) as E end.
    inversion E; subst. auto.
  - match goal with A : iupdate _ _ = _, B : iupdate _ _ = _ |- _ => rewrite A in B; inversion B end.
    subst. auto.
Qed.

Lemma isteps_det i ops : forall i1 ys1 i2 ys2,
  isteps i ops i1 ys1 -> isteps i ops i2 ys2 -> i1 = i2 /\ ys1 = ys2.
Proof.
  revert i. induction ops as [|o ops IH]; intros i i1 ys1 i2 ys2 H1 H2;
    inversion H1; subst; inversion H2; subst; [auto|].
  match goal with A : istep i o _ _, B : istep i o _ _ |- _ =>
    destruct (istep_det _ _ _ _ _ _ A B) as [-> ->] end.
  match goal with A : isteps _ ops _ _, B : isteps _ ops _ _ |- _ =>
    destruct (IH _ _ _ _ _ A B) as [-> ->] end.
  auto.
Qed.

(* The lock-step run: the concrete history (exactly the premises of [steps]) next
   to the ideal run on the same operations, with [P] relating the two states
   before every operation. *)
Inductive costeps (P : level -> ilevel -> Prop)
  : sys -> isys -> list op -> sys -> isys -> list out -> list out -> Prop :=
| costeps_nil s i : costeps P s i [] s i [] []
| costeps_cons s i o s1 i1 x y ops s' i' xs ys :
    P (fst s) (fst i) ->
    ok_op s o -> step mf s o s1 x -> Fits (fst s1) ->
    istep i o i1 y ->
    costeps P s1 i1 ops s' i' xs ys ->
    costeps P s i (o :: ops) s' i' (x :: xs) (y :: ys).

Lemma costeps_steps P s i ops s' i' xs ys :
  costeps P s i ops s' i' xs ys -> steps mf s ops s' xs /\ isteps i ops i' ys.
Proof.
  induction 1 as [|s i o s1 i1 x y ops s' i' xs ys HP Hok Hst Hf Hi _ [IH1 IH2]].
  - split; constructor.
  - split; econstructor; eassumption.
Qed.

Hypothesis Hid : I_id mf.
Hypothesis Hrest : I_rest mf.

(* from a strongly aligned pair every operation of the C04 alphabet has an ideal
   counterpart with the SAME output *)
Lemma untainted_progress s i o s1 x :
  AlignedStrong (fst s) (fst i) -> snd s = snd i -> c04_op o ->
  step mf s o s1 x -> exists i1, istep i o i1 x /\ snd s1 = snd i1.
Proof.
  intros HA Hg Hop Hst. destruct i as [il gi]. cbn in HA, Hg.
  inversion Hst; subst; cbn in HA, Hop; try contradiction; cbn.
  - eexists. split; [constructor | reflexivity].
  - match goal with H : match_order _ _ _ _ _ _ = Some _ |- _ =>
      destruct (match_refines mf _ _ _ _ _ _ _ _ _ Hid Hrest HA H) as (fuel' & il' & E) end.
    eexists. split; [econstructor; exact E | reflexivity].
  - destruct HA as [HA _]. destruct (update_aligned _ _ u HA) as [_ Ho].
    match goal with H : update_order _ _ = _ |- _ => rewrite H in Ho end. cbn in Ho.
    destruct (iupdate il u) as [il' uo'] eqn:E. cbn in Ho. subst uo'.
    eexists. split; [econstructor; exact E | reflexivity].
Qed.

Lemma untainted_step s i o s1 x i1 y :
  AlignedStrong (fst s) (fst i) -> snd s = snd i ->
  step mf s o s1 x -> istep i o i1 y -> x = y /\ snd s1 = snd i1.
Proof.
  intros HA Hg Hst Hi.
  assert (Hop : c04_op o) by (inversion Hi; exact I).
  destruct (untainted_progress _ _ _ _ _ HA Hg Hop Hst) as (i1' & Hi' & Hg').
  destruct (istep_det _ _ _ _ _ _ Hi Hi') as [-> ->]. auto.
Qed.

(* (f): if the two runs are strongly aligned before every operation, every
   output of the concrete history is the ideal output. *)
Theorem untainted_outputs s i ops s' i' xs ys :
  snd s = snd i ->
  costeps AlignedStrong s i ops s' i' xs ys ->
  xs = ys /\ snd s' = snd i'.
Proof.
  intros Hg H. induction H as [|s i o s1 i1 x y ops s' i' xs ys HP Hok Hst Hf Hi _ IH].
  - auto.
  - destruct (untainted_step _ _ _ _ _ _ _ HP Hg Hst Hi) as [-> Hg1].
    destruct (IH Hg1) as [-> Hg']. auto.
Qed.

End Histories.

Lemma AlignedStrong_new p : AlignedStrong (new_level p) (inew p).
Proof.
  apply AlignedStrong_Rep. cbn. split; [reflexivity|].
  unfold Rep, abs, live_tickets. cbn. repeat split; constructor.
Qed.

(* ====================================================================== *)
(* (g) the two known deviations, as closed witnesses                        *)
(* ====================================================================== *)

Definition makers (x : out) : list oid :=
  match x with OutMatch r => map tx_maker (r_txs r) | _ => [] end.

Definition wA : order := Standard (mkCommon (Uuid 1) 100 Sell 1 Gtc) 10.
Definition wB : order := Standard (mkCommon (Uuid 2) 100 Sell 2 Gtc) 10.
Definition wT : oid := Uuid 99.

(* K1: A(10), B(10); match 4 (partial fill of A), match 4 again *)
Definition K1_ops : list op := [OAdd wA; OAdd wB; OMatch 4 wT; OMatch 4 wT].
(* K2: add A, add B, cancel A, add A again, match 4 *)
Definition K2_ops : list op := [OAdd wA; OAdd wB; OUpdate (Cancel (Uuid 1)); OAdd wA; OMatch 4 wT].

Ltac w_ok :=
  lazymatch goal with
  | |- ok_op _ (OAdd _) => split; [vm_compute; reflexivity | split; [vm_compute; reflexivity | exact I]]
  | |- ok_op _ (OMatch _ _) => vm_compute; reflexivity
  | |- ok_op _ (OUpdate (Cancel _)) => exact I
  end.
Ltac w_step :=
  lazymatch goal with
  | |- step _ _ (OAdd _) _ _ => apply SAdd
  | |- step _ _ (OMatch _ _) _ _ => eapply SMatch with (fuel := 6%nat); vm_compute; reflexivity
  | |- step _ _ (OUpdate _) _ _ => eapply SUpdate; vm_compute; reflexivity
  end.
Ltac w_fits := split; vm_compute; reflexivity.
Ltac w_steps :=
  repeat (eapply steps_cons; [w_ok | w_step | w_fits | ]); apply steps_nil.
Ltac w_istep :=
  lazymatch goal with
  | |- istep _ _ (OAdd _) _ _ => apply ISAdd
  | |- istep _ _ (OMatch _ _) _ _ => eapply ISMatch with (fuel := 6%nat); vm_compute; reflexivity
  | |- istep _ _ (OUpdate _) _ _ => eapply ISUpdate; vm_compute; reflexivity
  end.
Ltac w_isteps := repeat (eapply isteps_cons; [w_istep | ]); apply isteps_nil.

(* K1: the second match trades with B in the concrete level, with A in the ideal *)
Lemma K1_witness :
  exists s' xs i' ys,
    steps match_against (new_level 100, 0) K1_ops s' xs /\
    isteps match_against (inew 100, 0) K1_ops i' ys /\
    map makers xs = [[]; []; [Uuid 1]; [Uuid 2]] /\
    map makers ys = [[]; []; [Uuid 1]; [Uuid 1]].
Proof.
  unfold K1_ops. do 4 eexists. split; [|split; [|split]].
  - w_steps.
  - w_isteps.
  - vm_compute. reflexivity.
  - vm_compute. reflexivity.
Qed.

(* K2: after cancel + re-add, A trades before B in the concrete level *)
Lemma K2_witness :
  exists s' xs i' ys,
    steps match_against (new_level 100, 0) K2_ops s' xs /\
    isteps match_against (inew 100, 0) K2_ops i' ys /\
    map makers xs = [[]; []; []; []; [Uuid 1]] /\
    map makers ys = [[]; []; []; []; [Uuid 2]].
Proof.
  unfold K2_ops. do 4 eexists. split; [|split; [|split]].
  - w_steps.
  - w_isteps.
  - vm_compute. reflexivity.
  - vm_compute. reflexivity.
Qed.

(* the unrestricted property is false of the model *)
Lemma unrestricted_refuted :
  exists ops s' xs i' ys,
    steps match_against (new_level 100, 0) ops s' xs /\
    isteps match_against (inew 100, 0) ops i' ys /\ xs <> ys.
Proof.
  destruct K1_witness as (s' & xs & i' & ys & H1 & H2 & H3 & H4).
  exists K1_ops, s', xs, i', ys. split; [assumption|]. split; [assumption|].
  intros E. subst ys. rewrite H3 in H4. discriminate.
Qed.

(* ====================================================================== *)
(* (e) needs more than I_cons: a per-order function that meets I_cons but   *)
(* lets an exhausted, unreplenished maker survive with nothing displayed    *)
(* and later behave differently depending on the incoming quantity.         *)
(* ====================================================================== *)
Definition mf_odd (o : order) (inc : N) : mres :=
  if vis o =? 0 then
    if inc =? 3 then mkMres 0 (Some (with_quantities o (hid o) 0)) (hid o) inc
    else mkMres 0 None 0 inc
  else if vis o <=? inc then mkMres (vis o) (Some (with_quantities o 0 (hid o))) 0 (inc - vis o)
  else mkMres inc (Some (with_quantities o (vis o - inc) (hid o))) 0 0.

Lemma mf_odd_I_cons : I_cons mf_odd.
Proof.
  intros o inc. unfold mf_odd.
  assert (Hp : family_of o = Plain -> hid o = 0) by apply plain_hid0.
  destruct (vis o =? 0) eqn:E0; [destruct (inc =? 3) eqn:E3 | destruct (vis o <=? inc) eqn:El];
    cbn [m_consumed m_remaining m_updated m_hidden_reduced];
    rewrite ?vis_with_quantities, ?hid_with_quantities;
    (split; [lia|]); (split; [lia|]);
    try (split; [|split; [|apply same_identity_with_quantities]]);
    destruct (family_of o); try specialize (Hp eq_refl); lia.
Qed.

Definition oX : order := Iceberg (mkCommon (Uuid 1) 100 Sell 1 Gtc) 5 10.
Definition oY : order := Standard (mkCommon (Uuid 2) 100 Sell 2 Gtc) 2.

Lemma match_refines_needs_I_rest :
  exists mf, I_cons mf /\
  exists l il fuel g qty taker l' g' r,
    AlignedStrong l il /\
    match_order mf fuel l g qty taker = Some (l', g', r) /\
    forall fuel' il' g'' r', imatch mf fuel' il g qty taker = Some (il', g'', r') -> r' <> r.
Proof.
  exists mf_odd. split; [apply mf_odd_I_cons|].
  exists (add_order (add_order (new_level 100) oX) oY), (iadd (iadd (inew 100) oX) oY),
         10%nat, 0, 10, wT.
  do 3 eexists. split; [|split].
  - apply add_aligned_strong; [apply add_aligned_strong; [apply AlignedStrong_new| |]| |].
    + vm_compute. reflexivity.
    + vm_compute. intros [].
    + vm_compute. reflexivity.
    + vm_compute. intros [H|[]]. discriminate.
  - vm_compute. reflexivity.
  - intros fuel' il' g'' r' H.
    assert (E : exists a, imatch mf_odd 10 (iadd (iadd (inew 100) oX) oY) 0 10 wT = Some a)
      by (vm_compute; eexists; reflexivity).
    destruct E as (a & E). pose proof (imatch_det _ _ _ _ _ _ _ _ _ H E) as Ea.
    subst a. vm_compute in E. inversion E; subst. discriminate.
Qed.

(* ====================================================================== *)
(* single-step forms of K1 and K2: the premises of (d) and of the second    *)
(* half of (e) cannot be dropped                                            *)
(* ====================================================================== *)

(* K2: without the "no outstanding ticket" premise, add does not join at the back *)
Lemma add_stale_ticket_refuted :
  exists l il o,
    AlignedStrong l il /\ lookup (oid_of o) (resting l) = None /\ K2_add l o /\
    ~ Aligned (add_order l o) (iadd il o).
Proof.
  pose (l2 := add_order (add_order (new_level 100) wA) wB).
  pose (il2 := iadd (iadd (inew 100) wA) wB).
  assert (H2 : AlignedStrong l2 il2).
  { apply add_aligned_strong; [apply add_aligned_strong; [apply AlignedStrong_new| |]| |].
    - vm_compute. reflexivity.
    - vm_compute. intros [].
    - vm_compute. reflexivity.
    - vm_compute. intros [H|[]]. discriminate. }
  exists (fst (take_out l2 (Uuid 1))), (fst (itake_out il2 (Uuid 1))), wA.
  split; [apply take_out_aligned_strong; assumption|].
  split; [vm_compute; reflexivity|]. split; [vm_compute; auto|].
  intros [_ Ha]. vm_compute in Ha. discriminate.
Qed.

(* K1: a partial fill with another order queued behind loses the alignment,
   although the match itself is the ideal one *)
Lemma match_partial_fill_refuted :
  exists l il fuel g qty taker l' g' r il',
    AlignedStrong l il /\
    match_order match_against fuel l g qty taker = Some (l', g', r) /\
    imatch match_against fuel il g qty taker = Some (il', g', r) /\
    k1_free match_against fuel [] (iorders il) qty = false /\
    ~ Aligned l' il'.
Proof.
  exists (add_order (add_order (new_level 100) wA) wB), (iadd (iadd (inew 100) wA) wB),
         6%nat, 0, 4, wT.
  do 4 eexists. split; [|split; [|split; [|split]]].
  - apply add_aligned_strong; [apply add_aligned_strong; [apply AlignedStrong_new| |]| |].
    + vm_compute. reflexivity.
    + vm_compute. intros [].
    + vm_compute. reflexivity.
    + vm_compute. intros [H|[]]. discriminate.
  - vm_compute. reflexivity.
  - vm_compute. reflexivity.
  - vm_compute. reflexivity.
  - intros [_ Ha]. vm_compute in Ha. discriminate.
Qed.

(* K1, second form: an order that displays nothing is passed over and re-queued
   behind the orders that were behind it *)
Definition wZ : order := Iceberg (mkCommon (Uuid 3) 100 Sell 0 Gtc) 0 7.

Lemma match_set_aside_refuted :
  exists l il fuel g qty taker l' g' r il',
    AlignedStrong l il /\
    match_order match_against fuel l g qty taker = Some (l', g', r) /\
    imatch match_against fuel il g qty taker = Some (il', g', r) /\
    k1_free match_against fuel [] (iorders il) qty = false /\
    ~ Aligned l' il'.
Proof.
  exists (add_order (add_order (add_order (new_level 100) wZ) wA) wB),
         (iadd (iadd (iadd (inew 100) wZ) wA) wB),
         6%nat, 0, 10, wT.
  do 4 eexists. split; [|split; [|split; [|split]]].
  - apply add_aligned_strong;
      [apply add_aligned_strong; [apply add_aligned_strong; [apply AlignedStrong_new| |]| |]| |].
    + vm_compute. reflexivity.
    + vm_compute. intros [].
    + vm_compute. reflexivity.
    + vm_compute. intros [H|[]]. discriminate.
    + vm_compute. reflexivity.
    + vm_compute. intros [H|[H|[]]]; discriminate.
  - vm_compute. reflexivity.
  - vm_compute. reflexivity.
  - vm_compute. reflexivity.
  - intros [_ Ha]. vm_compute in Ha. discriminate.
Qed.

(* ====================================================================== *)
(* non-vacuity: an untainted history with a replenishment and a cancel      *)
(* ====================================================================== *)
Ltac w_nodup := repeat (constructor; [vm_compute; intuition discriminate|]); constructor.
Ltac w_aligned :=
  split; [split; [split; [vm_compute; reflexivity | split; [vm_compute; w_nodup | intros k; vm_compute; reflexivity]]
                 | vm_compute; reflexivity]
         | vm_compute; w_nodup].
Ltac w_costeps :=
  repeat (eapply costeps_cons; [w_aligned | w_ok | w_step | w_fits | w_istep | ]); apply costeps_nil.

Definition wI : order := Iceberg (mkCommon (Uuid 4) 100 Sell 0 Gtc) 5 20.
Definition untainted_ops : list op :=
  [OAdd wI; OAdd wA; OAdd wB; OMatch 15 wT; OUpdate (Cancel (Uuid 2)); OMatch 5 wT; OAdd wB; OMatch 30 wT].

Lemma untainted_example :
  exists s' i' xs ys,
    costeps match_against AlignedStrong (new_level 100, 0) (inew 100, 0) untainted_ops s' i' xs ys /\
    map makers xs = [[]; []; []; [Uuid 4; Uuid 1]; []; [Uuid 4]; []; [Uuid 4; Uuid 2; Uuid 4; Uuid 4]].
Proof.
  unfold untainted_ops. do 4 eexists. split.
  - w_costeps.
  - vm_compute. reflexivity.
Qed.
