(* LedgerProofs.v — C02 item 6: over a whole history an order id never trades
   more than the quantity brought to the book under that id. *)
From PL Require Import Model.Level Spec.Hist Spec.LedgerSpec Proofs.OrderProofs
                       Proofs.MatchBase Proofs.MatchProofs.
From Coq Require Import Lia ZifyBool ZifyN.
Local Open Scope N_scope.

(* ---- histories and traces are the same thing ---- *)
Lemma steps_trace mf s ops s' outs :
  steps mf s ops s' outs ->
  exists evs, trace mf s evs s' /\ map ev_op evs = ops /\ map ev_out evs = outs.
Proof.
  induction 1 as [s|s o s1 x ops s' outs Hok Hst Hf _ IH].
  - exists []. repeat split. constructor.
  - destruct IH as (evs & Ht & Ho & Hx). destruct s as [l g].
    exists ((l, o, x) :: evs). split; [econstructor; eassumption|].
    cbn [map ev_op ev_out fst snd]. split; f_equal; assumption.
Qed.

Lemma trace_steps mf s evs s' :
  trace mf s evs s' -> steps mf s (map ev_op evs) s' (map ev_out evs).
Proof.
  induction 1 as [s|l g o s1 x evs s' Hok Hst Hf _ IH]; [constructor|].
  cbn [map ev_op ev_out fst snd]. econstructor; eassumption.
Qed.

(* ---- map lemmas for add / take_out / amend / rebuild ---- *)
Lemma NoDup_ids_upsert u m : NoDup (ids m) -> NoDup (ids (upsert u m)).
Proof.
  intros H. unfold upsert. apply NoDup_ids_insert; rewrite app_nil_r.
  - apply NoDup_ids_remove_key. exact H.
  - rewrite In_ids_remove_key. intros [_ Hne]. congruence.
Qed.

Lemma lookup_perm a b k :
  Permutation a b -> NoDup (ids a) -> lookup k a = lookup k b.
Proof.
  intros Hp Hnd.
  assert (Hndb : NoDup (ids b)) by (apply (Permutation_NoDup (Permutation_map oid_of Hp)); exact Hnd).
  destruct (lookup k a) as [o|] eqn:E.
  - destruct (lookup_Some _ _ _ E) as [Hin Hid]. subst k. symmetry.
    apply NoDup_lookup; [exact Hndb | apply (Permutation_in _ Hp); exact Hin].
  - symmetry. apply lookup_None. apply lookup_None in E. intros Hin. apply E.
    apply (Permutation_in _ (Permutation_sym (Permutation_map oid_of Hp))). exact Hin.
Qed.

Lemma lq_fold_add_order os : forall l, lq (fold_left add_order os l) = fold_left push os (lq l).
Proof. induction os as [|o os IH]; intros l; cbn [fold_left]; [reflexivity|]. rewrite IH. reflexivity. Qed.

Lemma qmap_from_vec os : NoDup (ids os) -> qmap (from_vec os) = os.
Proof. intros H. unfold from_vec. apply (fold_push_fresh os empty_queue). exact H. Qed.

Lemma oid_of_with_reduced_quantity o nq : oid_of (with_reduced_quantity o nq) = oid_of o.
Proof. destruct o; reflexivity. Qed.

Lemma take_out_spec l k' l' uo :
  take_out l k' = (l', uo) -> NoDup (ids (resting l)) ->
  NoDup (ids (resting l')) /\ uo = UOk (lookup k' (resting l)) /\
  forall k, lookup k (resting l') = if oid_eqb k' k then None else lookup k (resting l).
Proof.
  unfold take_out, qremove, resting. intros H Hnd.
  destruct (lookup k' (qmap (lq l))) as [x|] eqn:E; inversion H; subst; clear H; cbn [lq qmap].
  - split; [apply NoDup_ids_remove_key; exact Hnd|]. split; [reflexivity|].
    intros k. apply lookup_remove_key.
  - split; [exact Hnd|]. split; [reflexivity|]. intros k.
    destruct (oid_eqb k' k) eqn:Ek; [|reflexivity]. apply oid_eqb_eq in Ek. subst k. exact E.
Qed.

Lemma amend_spec l k' nq l' uo :
  amend l k' nq = (l', uo) -> NoDup (ids (resting l)) ->
  NoDup (ids (resting l')) /\
  match lookup k' (resting l) with
  | Some old =>
      uo = UOk (Some (with_reduced_quantity old nq)) /\
      forall k, lookup k (resting l') =
                if oid_eqb k' k then Some (with_reduced_quantity old nq) else lookup k (resting l)
  | None => l' = l /\ uo = UOk None
  end.
Proof.
  unfold amend, qfind, qremove, resting. intros H Hnd.
  destruct (lookup k' (qmap (lq l))) as [old|] eqn:E; inversion H; subst; clear H; cbn [lq qmap push].
  - destruct (lookup_Some _ _ _ E) as [_ Hid].
    split; [apply NoDup_ids_upsert, NoDup_ids_remove_key; exact Hnd|]. split; [reflexivity|].
    intros k. rewrite lookup_upsert, oid_of_with_reduced_quantity, Hid, lookup_remove_key.
    rewrite (oid_eqb_sym k k'). destruct (oid_eqb k' k); reflexivity.
  - auto.
Qed.

Local Open Scope Z_scope.

Section WithMf.
Variable mf : order -> N -> mres.
Hypothesis Hc : I_cons mf.

(* the ledger inequality of one event *)
Definition ev_bound (l l1 : level) (e : event) : Prop :=
  forall k, ev_traded k e + ev_returned k e + totalZ (lookup k (resting l1))
            <= totalZ (lookup k (resting l)) + ev_supplied k e.

Lemma take_out_event l k' l' uo u :
  take_out l k' = (l', uo) -> upd_key u = k' -> is_amend l u = false ->
  NoDup (ids (resting l)) ->
  NoDup (ids (resting l')) /\ ev_bound l l' (l, OUpdate u, OutUpdate uo).
Proof.
  intros H Hk Ha Hnd. destruct (take_out_spec _ _ _ _ H Hnd) as (Hnd' & -> & Hl).
  split; [exact Hnd'|]. intros k. unfold ev_traded, ev_returned, ev_supplied.
  rewrite Ha, Hk, Hl. cbn [negb andb].
  destruct (lookup k' (resting l)) as [x|] eqn:E.
  - destruct (oid_eqb k' k) eqn:Ek; [|lia]. apply oid_eqb_eq in Ek. subst k. rewrite E.
    unfold totalZ, total. lia.
  - destruct (oid_eqb k' k); unfold totalZ, total; lia.
Qed.

Lemma amend_event l k' nq l' uo u :
  amend l k' nq = (l', uo) -> upd_key u = k' -> is_amend l u = true ->
  NoDup (ids (resting l)) ->
  NoDup (ids (resting l')) /\ ev_bound l l' (l, OUpdate u, OutUpdate uo).
Proof.
  intros H Hk Ha Hnd. destruct (amend_spec _ _ _ _ _ H Hnd) as (Hnd' & Hs).
  split; [exact Hnd'|]. intros k. unfold ev_traded, ev_returned, ev_supplied.
  destruct (lookup k' (resting l)) as [old|] eqn:E.
  - destruct Hs as (-> & Hl). rewrite Ha, Hk, Hl. cbn [negb andb].
    destruct (oid_eqb k' k) eqn:Ek; lia.
  - destruct Hs as (-> & ->). lia.
Qed.

Lemma step_ledger l g o s1 x :
  ok_op (l, g) o -> step mf (l, g) o s1 x -> NoDup (ids (resting l)) ->
  NoDup (ids (resting (fst s1))) /\ ev_bound l (fst s1) (l, o, x).
Proof.
  intros Hok Hst Hnd. inversion Hst; subst; clear Hst; cbn [fst]; unfold ev_bound.
  - (* add *)
    cbn [ok_op fst] in Hok. destruct Hok as [Hfresh _].
    unfold resting in *. cbn [add_order lq push qmap].
    split; [apply NoDup_ids_upsert; exact Hnd|]. intros k.
    unfold ev_traded, ev_returned, ev_supplied. rewrite lookup_upsert, (oid_eqb_sym k).
    destruct (oid_eqb (oid_of o0) k) eqn:Ek; [|lia].
    apply oid_eqb_eq in Ek. subst k. rewrite Hfresh. unfold totalZ, total. lia.
  - (* match *)
    match goal with H : match_order _ _ _ _ _ _ = Some _ |- _ =>
      destruct (match_no_overfill mf Hc _ _ _ _ _ _ _ _ Hnd H) as (Hnd' & Hb) end.
    split; [exact Hnd'|]. intros k. destruct (Hb k) as (Hle & _).
    unfold ev_traded, ev_returned, ev_supplied, totalZ. lia.
  - (* update *)
    match goal with H : update_order _ _ = _ |- _ => rename H into Hu end.
    destruct u as [k' np|k' nq|k' np nq|k'|k' p q sd]; cbn [update_order] in Hu.
    + destruct (np =? price l)%N eqn:Ep.
      * inversion Hu; subst. split; [exact Hnd|]. intros k.
        unfold ev_traded, ev_returned, ev_supplied. lia.
      * apply (take_out_event _ _ _ _ _ Hu); auto.
    + apply (amend_event _ _ _ _ _ _ Hu); auto.
    + destruct (np =? price l)%N eqn:Ep.
      * apply (amend_event _ _ _ _ _ _ Hu); auto.
      * apply (take_out_event _ _ _ _ _ Hu); auto.
    + apply (take_out_event _ _ _ _ _ Hu); auto.
    + destruct (p =? price l)%N eqn:Ep.
      * apply (amend_event _ _ _ _ _ _ Hu); auto.
      * apply (take_out_event _ _ _ _ _ Hu); auto.
  - (* rebuild from a snapshot *)
    match goal with H : listing_of _ _ |- _ => destruct H as [Hp _] end.
    assert (Hndl : NoDup (ids listing)).
    { apply (Permutation_NoDup (Permutation_map oid_of (Permutation_sym Hp))). exact Hnd. }
    unfold resting at 1 2. cbn [from_snapshot refresh sn_orders lq].
    rewrite (qmap_from_vec _ Hndl). split; [exact Hndl|]. intros k.
    rewrite (lookup_perm _ _ k Hp Hndl). unfold ev_traded, ev_returned, ev_supplied. lia.
  - (* rebuild from data *)
    match goal with H : listing_of _ _ |- _ => destruct H as [Hp _] end.
    assert (Hndl : NoDup (ids listing)).
    { apply (Permutation_NoDup (Permutation_map oid_of (Permutation_sym Hp))). exact Hnd. }
    unfold resting at 1 2. unfold from_data. rewrite lq_fold_add_order.
    change (fold_left push listing (lq (new_level (price l)))) with (from_vec listing).
    rewrite (qmap_from_vec _ Hndl). split; [exact Hndl|]. intros k.
    rewrite (lookup_perm _ _ k Hp Hndl). unfold ev_traded, ev_returned, ev_supplied. lia.
  - (* read *)
    split; [exact Hnd|]. intros k. unfold ev_traded, ev_returned, ev_supplied. lia.
Qed.

Lemma sumZ_cons f e evs : sumZ f (e :: evs) = f e + sumZ f evs.
Proof. reflexivity. Qed.

(* telescoped over a trace, from any starting state with unique ids *)
Theorem trace_ledger s evs s' :
  trace mf s evs s' -> NoDup (ids (resting (fst s))) ->
  NoDup (ids (resting (fst s'))) /\
  forall k, traded_total evs k + returned_total evs k + totalZ (lookup k (resting (fst s')))
            <= totalZ (lookup k (resting (fst s))) + supplied_total evs k.
Proof.
  induction 1 as [s|l g o s1 x evs s' Hok Hst Hf _ IH]; intros Hnd.
  - split; [exact Hnd|]. intros k. unfold traded_total, returned_total, supplied_total, sumZ.
    cbn [fold_right]. lia.
  - cbn [fst] in Hnd. destruct (step_ledger _ _ _ _ _ Hok Hst Hnd) as (Hnd1 & Hb).
    destruct (IH Hnd1) as (Hnd' & Hb'). split; [exact Hnd'|]. intros k.
    specialize (Hb k). specialize (Hb' k). cbn [fst].
    unfold traded_total, returned_total, supplied_total in *. rewrite !sumZ_cons. lia.
Qed.

(* C02 item 6: histories from an empty level *)
Theorem lifetime_bound p g0 evs l g :
  trace mf (new_level p, g0) evs (l, g) ->
  forall k, traded_total evs k + returned_total evs k + totalZ (lookup k (resting l))
            <= supplied_total evs k.
Proof.
  intros Ht k. destruct (trace_ledger _ _ _ Ht) as (_ & Hb); [cbn; constructor|].
  specialize (Hb k). cbn [fst] in Hb. unfold totalZ at 2 in Hb. cbn in Hb. lia.
Qed.

Theorem lifetime_bound_steps p g0 ops outs l g :
  steps mf (new_level p, g0) ops (l, g) outs ->
  exists evs, map ev_op evs = ops /\ map ev_out evs = outs /\
              trace mf (new_level p, g0) evs (l, g) /\
  forall k, traded_total evs k + returned_total evs k + totalZ (lookup k (resting l))
            <= supplied_total evs k.
Proof.
  intros H. destruct (steps_trace _ _ _ _ _ H) as (evs & Ht & Ho & Hx).
  exists evs. repeat split; try assumption. apply (lifetime_bound _ _ _ _ _ Ht).
Qed.

(* ---- transaction ids over a history: consecutive, hence never reused ---- *)
Local Open Scope N_scope.

Lemma map_seq_shift {A} n : forall (f : nat -> A) a,
  map f (seq a n) = map (fun i => f (a + i)%nat) (seq 0 n).
Proof.
  induction n as [|n IH]; intros f a; [reflexivity|]. cbn [seq map]. rewrite Nat.add_0_r. f_equal.
  rewrite (IH f (S a)), (IH (fun i => f (a + i)%nat) 1%nat).
  apply map_ext. intros i. f_equal. lia.
Qed.

Lemma step_gen l g o s1 x :
  step mf (l, g) o s1 x ->
  let n := length (ev_txs (l, o, x)) in
  g + N.of_nat n < W ->
  snd s1 = g + N.of_nat n /\
  map tx_idx (ev_txs (l, o, x)) = map (fun i => g + N.of_nat i) (seq 0 n).
Proof.
  intros Hst. inversion Hst; subst; clear Hst; cbv zeta; unfold ev_txs; cbn [ev_out snd fst length seq map];
    try (intros _; split; [lia | reflexivity]).
  match goal with H : match_order _ _ _ _ _ _ = Some _ |- _ =>
    destruct (match_tx_indices mf _ _ _ _ _ _ _ _ H) as (_ & Hnw) end.
  cbv zeta in Hnw. exact Hnw.
Qed.

Theorem trace_tx_indices s evs s' :
  trace mf s evs s' ->
  let n := length (all_txs evs) in
  snd s + N.of_nat n < W ->
  snd s' = snd s + N.of_nat n /\
  map tx_idx (all_txs evs) = map (fun i => snd s + N.of_nat i) (seq 0 n).
Proof.
  induction 1 as [s|l g o s1 x evs s' Hok Hst Hf _ IH]; cbv zeta in *.
  - intros _. cbn. split; [lia | reflexivity].
  - unfold all_txs. cbn [flat_map snd]. fold (all_txs evs). rewrite app_length, map_app.
    intros Hw. destruct (step_gen _ _ _ _ _ Hst) as (Hg1 & Hm1); [cbv zeta; lia|]. cbv zeta in Hg1, Hm1.
    destruct IH as (Hg' & Hm'); [lia|].
    split; [lia|]. rewrite seq_app, map_app, Hm1, Hm'. f_equal. cbn [Nat.add].
    rewrite (map_seq_shift _ (fun i => g + N.of_nat i) (length (ev_txs (l, o, x)))).
    apply map_ext. intros i. lia.
Qed.

Corollary trace_tx_ids_distinct s evs s' :
  trace mf s evs s' -> snd s + N.of_nat (length (all_txs evs)) < W ->
  NoDup (map tx_idx (all_txs evs)) /\
  forall t, In t (all_txs evs) -> snd s <= tx_idx t < snd s'.
Proof.
  intros Ht Hw. destruct (trace_tx_indices _ _ _ Ht Hw) as (Hg & Hm).
  destruct (consecutive_fresh _ _ Hm) as (Hnd & Hr). split; [exact Hnd|].
  intros t Hin. specialize (Hr t Hin). lia.
Qed.

End WithMf.
