(* TextRoundSeq.v — C16 for the list-shaped codecs: TransactionList, OrderQueue,
   PriceLevel and MatchResult (bespoke scanners). *)
From PL Require Import Model.Text Proofs.TextUtf8 Proofs.TextPrims Proofs.TextRound.
From Coq Require Import Lia ZifyBool ZifyN.
Local Open Scope N_scope.

(* ------------------------------------------------------------------ characters of printed records *)

Lemma okc2_flags : forall c, okc2 c = true ->
  Ascii.eqb c comma = false /\ Ascii.eqb c lbr = false /\ Ascii.eqb c rbr = false /\
  Ascii.eqb c "("%char = false /\ Ascii.eqb c ")"%char = false.
Proof.
  intros c H.
  assert (G : forall x, okc2 x = false -> Ascii.eqb c x = false).
  { intros x Hx. destruct (Ascii.eqb c x) eqn:E; [|reflexivity]. apply Ascii.eqb_eq in E. subst. congruence. }
  repeat split; apply G; reflexivity.
Qed.

Lemma all_ascii_join : forall sep l,
  all_ascii sep = true -> forallb all_ascii l = true -> all_ascii (join sep l) = true.
Proof. intros. apply clean_join_sep; assumption. Qed.

Lemma clean2_join_comma : forall (A : Type) (pr : A -> str) l,
  (forall x, clean2 (pr x) = true) -> all_ascii (join [comma] (map pr l)) = true.
Proof.
  intros A pr l H. apply all_ascii_join; [reflexivity|].
  rewrite forallb_forall. intros x Hx. apply in_map_iff in Hx. destruct Hx as [y [<- _]].
  apply clean2_ascii, H.
Qed.

Lemma join_nonempty : forall (A : Type) (pr : A -> str) x l,
  pr x <> [] -> join [comma] (map pr (x :: l)) <> [].
Proof.
  intros A pr x l H. cbn [map join]. destruct (pr x); [congruence|discriminate].
Qed.

Lemma is_empty_false : forall s, s <> [] -> is_empty s = false.
Proof. intros [|c s] H; [congruence|reflexivity]. Qed.

Lemma join_comma_notin : forall (A : Type) (pr : A -> str) l,
  (forall x, clean2 (pr x) = true) -> forallb (notin comma) (map pr l) = true.
Proof.
  intros A pr l H. rewrite forallb_forall. intros x Hx. apply in_map_iff in Hx. destruct Hx as [y [<- _]].
  apply clean2_notin; [reflexivity|apply H].
Qed.

(* ------------------------------------------------------------------ TransactionList *)

Lemma txl_skip : forall x rest d rcur acc,
  clean2 x = true -> txl_loop (x ++ rest) d rcur acc = txl_loop rest d (rev x ++ rcur) acc.
Proof.
  induction x as [|c x IH]; intros rest d rcur acc H; [reflexivity|].
  cbn [clean2 forallb] in H. apply andb_true_iff in H. destruct H as [Hc Hx].
  destruct (okc2_flags c Hc) as [F1 [F2 [F3 _]]].
  cbn [app txl_loop]. rewrite F1, F2, F3. cbn [andb].
  rewrite (IH rest d (c :: rcur) acc Hx). cbn [rev]. rewrite <- app_assoc. reflexivity.
Qed.

Lemma txl_comma : forall r rcur acc,
  rcur <> [] ->
  txl_loop (comma :: r) 0%Z rcur acc = (t <- parse_txn (rev rcur) ;; txl_loop r 0%Z [] (t :: acc)).
Proof. intros r [|c rcur] acc H; [congruence|reflexivity]. Qed.

Lemma txl_end : forall rcur acc,
  rcur <> [] -> txl_loop [] 0%Z rcur acc = (t <- parse_txn (rev rcur) ;; POk (rev (t :: acc))).
Proof. intros [|c rcur] acc H; [congruence|reflexivity]. Qed.

Lemma join_cons2c : forall c x y l, join [c] (x :: y :: l) = x ++ c :: join [c] (y :: l).
Proof. intros. rewrite join_cons2. reflexivity. Qed.

Lemma rev_nonempty : forall (x : str), x <> [] -> rev x <> [].
Proof. intros x H E. apply H. rewrite <- (rev_involutive x), E. reflexivity. Qed.

Lemma txl_list : forall l acc,
  Forall wf_txn l -> l <> [] ->
  txl_loop (join [comma] (map print_txn l)) 0%Z [] acc = POk (rev acc ++ l).
Proof.
  induction l as [|t l IH]; intros acc Hwf NE; [congruence|].
  inversion Hwf as [|? ? Ht Hl]; subst.
  pose proof (print_txn_clean2 t) as Hc. pose proof (print_txn_nonempty t) as Hn.
  pose proof (rt_txn t Ht) as Hr.
  remember (print_txn t) as X eqn:EX.
  destruct l as [|t2 l].
  - change (map print_txn [t]) with [print_txn t]. rewrite <- EX, join_single.
    rewrite <- (app_nil_r X) at 1. rewrite txl_skip by exact Hc. rewrite app_nil_r.
    rewrite txl_end by (apply rev_nonempty, Hn).
    rewrite rev_involutive, Hr. reflexivity.
  - change (map print_txn (t :: t2 :: l)) with (print_txn t :: map print_txn (t2 :: l)).
    rewrite <- EX.
    remember (map print_txn (t2 :: l)) as M eqn:EM.
    assert (EJ : join [comma] (X :: M) = X ++ comma :: join [comma] M)
      by (rewrite EM; apply join_cons2c).
    rewrite EJ, txl_skip by exact Hc. rewrite app_nil_r.
    rewrite txl_comma by (apply rev_nonempty, Hn).
    rewrite rev_involutive, Hr. cbn [bind]. subst M.
    rewrite (IH (t :: acc) Hl) by discriminate. cbn [rev]. rewrite <- app_assoc. reflexivity.
Qed.

Theorem rt_txlist : forall l, Forall wf_txn l -> parse_txlist (print_txlist l) = POk l.
Proof.
  intros l Hwf. unfold parse_txlist, print_txlist.
  set (P := $"Transactions:["). set (body := join [comma] (map print_txn l)).
  assert (Ha : all_ascii (P ++ body ++ [rbr]) = true).
  { rewrite !all_ascii_app. unfold body. rewrite clean2_join_comma by apply print_txn_clean2. reflexivity. }
  rewrite starts_with_app.
  replace (ends_with [rbr] (P ++ body ++ [rbr])) with true
    by (symmetry; rewrite app_assoc; apply ends_with_app).
  cbn [negb orb].
  replace (find_char lbr (P ++ body ++ [rbr])) with (Some 13%nat).
  2:{ symmetry. change P with ($"Transactions:" ++ [lbr]). rewrite <- app_assoc. cbn [app].
      apply (find_char_app lbr $"Transactions:"). reflexivity. }
  replace (rfind_char rbr (P ++ body ++ [rbr])) with (Some (length P + length body)%nat).
  2:{ symmetry. rewrite app_assoc, <- app_length. apply rfind_char_app. reflexivity. }
  cbn [of_opt bind].
  destruct (Nat.leb_spec (length P + length body) 13); [unfold P in *; cbn [length list_ascii_of_string] in *; lia|].
  change 14%nat with (length P).
  unfold slice_o. rewrite slice_mid by exact Ha. cbn [unwrap bind].
  destruct l as [|t l]; [reflexivity|].
  rewrite is_empty_false by (apply join_nonempty, print_txn_nonempty).
  unfold body. rewrite txl_list; [reflexivity|exact Hwf|discriminate].
Qed.

Lemma print_txlist_ascii : forall l, all_ascii (print_txlist l) = true.
Proof.
  intro l. unfold print_txlist. rewrite !all_ascii_app.
  rewrite clean2_join_comma by apply print_txn_clean2. reflexivity.
Qed.

(* ------------------------------------------------------------------ OrderQueue *)

Theorem rt_queue : forall os, Forall wf_order_text os -> parse_queue (print_queue os) = POk os.
Proof.
  intros os Hwf. unfold parse_queue, print_queue.
  set (P := $"OrderQueue:orders=["). set (body := join [comma] (map print_order os)).
  assert (Ha : all_ascii (P ++ body ++ [rbr]) = true).
  { rewrite !all_ascii_app. unfold body. rewrite clean2_join_comma by apply print_order_clean2. reflexivity. }
  rewrite starts_with_app.
  replace (ends_with [rbr] (P ++ body ++ [rbr])) with true
    by (symmetry; rewrite app_assoc; apply ends_with_app).
  cbn [negb orb]. unfold usub.
  assert (L : length (P ++ body ++ [rbr]) = S (length P + length body)) by (rewrite !app_length; simpl; lia).
  rewrite L. cbn [Nat.leb bind].
  replace (S (length P + length body) - 1)%nat with (length P + length body)%nat by lia.
  change 19%nat with (length P).
  unfold slice_o. rewrite slice_mid by exact Ha. cbn [unwrap bind].
  destruct os as [|o os]; [reflexivity|].
  rewrite is_empty_false by (apply join_nonempty, print_order_nonempty).
  unfold body. rewrite split_join; [|discriminate|apply join_comma_notin, print_order_clean2].
  apply (map_o_map _ print_order parse_order wf_order_text); [exact rt_order|exact Hwf].
Qed.

(* ------------------------------------------------------------------ slices of all-ASCII concatenations *)

Lemma starts_with_nth_ : forall p s i c,
  starts_with p s = true -> nth_error p i = Some c -> nth_error s i = Some c.
Proof.
  intros p s i c H E. apply starts_with_split in H. rewrite H.
  rewrite nth_error_app1; [exact E|]. apply nth_error_Some. congruence.
Qed.


Lemma slice_suffix : forall pre r,
  all_ascii (pre ++ r) = true -> slice (pre ++ r) (length pre) (length (pre ++ r)) = Some r.
Proof.
  intros pre r H. pose proof (slice_mid pre r [] ) as M. rewrite app_nil_r in M.
  rewrite app_length. apply M, H.
Qed.

Lemma slice_prefix : forall a r, all_ascii (a ++ r) = true -> slice (a ++ r) 0 (length a) = Some a.
Proof. intros a r H. apply (slice_mid [] a r H). Qed.

Lemma slice_empty_end : forall s, all_ascii s = true -> slice s (length s) (length s) = Some [].
Proof. intros s H. rewrite slice_ascii by (auto; lia). rewrite Nat.sub_diag. reflexivity. Qed.

Lemma notin_nth : forall c s i, notin c s = true -> nth_error s i = Some c -> False.
Proof.
  intros c s i H E. unfold notin in H. rewrite forallb_forall in H.
  specialize (H c (nth_error_In _ _ E)). rewrite Ascii.eqb_refl in H. discriminate.
Qed.

(* a pattern whose last character occurs neither earlier in it nor in the text before it *)
Lemma find_sub_unique_last : forall q c A r,
  notin c q = true -> notin c A = true ->
  find_sub (q ++ [c]) (A ++ (q ++ [c]) ++ r) = Some (length A).
Proof.
  intros q c A r Hq HA. apply find_sub_app. intros k Hk.
  destruct (starts_with (q ++ [c]) (skipn k (A ++ (q ++ [c]) ++ r))) eqn:E; [exfalso|reflexivity].
  assert (N : nth_error (q ++ [c]) (length q) = Some c)
    by (rewrite nth_error_app2 by lia; rewrite Nat.sub_diag; reflexivity).
  pose proof (starts_with_nth_ _ _ _ _ E N) as M. rewrite nth_error_skipn' in M.
  destruct (Nat.lt_ge_cases (k + length q) (length A)) as [L|L].
  - rewrite nth_error_app1 in M by exact L. exact (notin_nth _ _ _ HA M).
  - rewrite nth_error_app2 in M by exact L.
    rewrite <- app_assoc in M. rewrite nth_error_app1 in M by lia. exact (notin_nth _ _ _ Hq M).
Qed.

Lemma splitn2_app : forall c k v, notin c k = true -> splitn2 c (k ++ c :: v) = (k, Some v).
Proof.
  induction k as [|x k IH]; intros v H.
  - simpl. rewrite Ascii.eqb_refl. reflexivity.
  - rewrite notin_cons in H. apply andb_true_iff in H. destruct H as [H1 H2].
    cbn [app splitn2]. destruct (Ascii.eqb x c); [discriminate|]. rewrite (IH v H2). reflexivity.
Qed.

(* ------------------------------------------------------------------ PriceLevel: the orders scan *)

Lemma lvl_skip : forall x op rest i d last acc,
  clean2 x = true ->
  lvl_scan op (x ++ rest) i d last acc = lvl_scan op rest (i + length x) d last acc.
Proof.
  induction x as [|c x IH]; intros op rest i d last acc H.
  - cbn [app length]. rewrite Nat.add_0_r. reflexivity.
  - cbn [clean2 forallb] in H. apply andb_true_iff in H. destruct H as [Hc Hx].
    destruct (okc2_flags c Hc) as [F1 [F2 [F3 [F4 F5]]]].
    cbn [app lvl_scan]. rewrite F1, F2, F3, F4, F5. cbn [andb orb].
    rewrite (IH op rest (S i) d last acc Hx). cbn [length]. f_equal. lia.
Qed.

Lemma lvl_skip_all : forall x op i d last acc,
  clean2 x = true -> lvl_scan op x i d last acc = POk (acc, last).
Proof.
  intros x op i d last acc H. rewrite <- (app_nil_r x). rewrite lvl_skip by exact H. reflexivity.
Qed.

Lemma lvl_comma : forall op r i last acc,
  lvl_scan op (comma :: r) i 0%Z last acc =
  (o_s <- slice_o op last i ;; o <- parse_order o_s ;; lvl_scan op r (S i) 0%Z (S i) (o :: acc)).
Proof. reflexivity. Qed.

Definition lvl_finish (prc : N) (op : str) (r : outcome (list order * nat)) : outcome (N * list order) :=
  '(acc, last) <- r ;;
  o_s <- slice_o op last (length op) ;;
  if is_empty o_s then POk (prc, rev acc)
  else o <- parse_order o_s ;; POk (prc, rev (o :: acc)).

Lemma lvl_list : forall os o pre acc prc,
  Forall wf_order_text (o :: os) -> all_ascii pre = true ->
  lvl_finish prc (pre ++ join [comma] (map print_order (o :: os)))
    (lvl_scan (pre ++ join [comma] (map print_order (o :: os)))
              (join [comma] (map print_order (o :: os))) (length pre) 0%Z (length pre) acc)
  = POk (prc, rev acc ++ o :: os).
Proof.
  induction os as [|o2 os IH]; intros o pre acc prc Hwf Hpre;
    inversion Hwf as [|? ? Ho Hos]; subst;
    pose proof (print_order_clean2 o) as Hc; pose proof (print_order_nonempty o) as Hn;
    pose proof (rt_order o Ho) as Hr;
    remember (print_order o) as X eqn:EX.
  - change (map print_order [o]) with [print_order o]. rewrite <- EX, join_single.
    rewrite lvl_skip_all by exact Hc. unfold lvl_finish. cbn [bind].
    assert (Ha : all_ascii (pre ++ X) = true) by (rewrite all_ascii_app, Hpre, (clean2_ascii _ Hc); reflexivity).
    unfold slice_o. rewrite slice_suffix by exact Ha. cbn [unwrap bind].
    rewrite is_empty_false by exact Hn. rewrite Hr. reflexivity.
  - change (map print_order (o :: o2 :: os)) with (print_order o :: map print_order (o2 :: os)).
    rewrite <- EX.
    remember (join [comma] (map print_order (o2 :: os))) as J eqn:EJ.
    assert (E : join [comma] (X :: map print_order (o2 :: os)) = X ++ comma :: J)
      by (rewrite EJ; apply join_cons2c).
    rewrite E. rewrite lvl_skip by exact Hc. rewrite lvl_comma.
    assert (HJ : all_ascii J = true) by (rewrite EJ; apply clean2_join_comma, print_order_clean2).
    assert (Ha : all_ascii (pre ++ X ++ comma :: J) = true).
    { rewrite !all_ascii_app, Hpre, (clean2_ascii _ Hc). cbn [andb].
      change (all_ascii (comma :: J)) with (is_ascii comma && all_ascii J). rewrite HJ. reflexivity. }
    unfold slice_o at 1. rewrite slice_mid by exact Ha. cbn [unwrap bind]. rewrite Hr. cbn [bind].
    replace (pre ++ X ++ comma :: J) with ((pre ++ X ++ [comma]) ++ J)
      by (rewrite <- !app_assoc; reflexivity).
    replace (S (length pre + length X)) with (length (pre ++ X ++ [comma]))
      by (rewrite !app_length; cbn [length]; lia).
    rewrite EJ. rewrite (IH o2 (pre ++ X ++ [comma]) (o :: acc) prc Hos).
    + cbn [rev]. rewrite <- app_assoc. reflexivity.
    + rewrite !all_ascii_app, Hpre, (clean2_ascii _ Hc). reflexivity.
Qed.

(* ------------------------------------------------------------------ PriceLevel *)

Lemma notin_join_comma : forall (A : Type) (pr : A -> str) c l,
  okc2 c = false -> Ascii.eqb comma c = false -> (forall x, clean2 (pr x) = true) ->
  notin c (join [comma] (map pr l)) = true.
Proof.
  intros A pr c l Hc Hcc H. apply notin_join; [cbn [notin forallb]; rewrite Hcc; reflexivity|].
  rewrite forallb_forall. intros x Hx. apply in_map_iff in Hx. destruct Hx as [y [<- _]].
  apply clean2_notin; [exact Hc|apply H].
Qed.

Lemma fold_level_fields : forall (P V H C : str) m0,
  clean P = true -> clean V = true -> clean H = true -> clean C = true ->
  fold_left (fun m part => match splitn2 eq_c part with
                           | (k, Some v) => (k, v) :: m
                           | (_, None) => m
                           end)
    (filter (fun p => negb (is_empty p))
       (split semi ($"price=" ++ P ++ semi :: $"visible_quantity=" ++ V ++ semi ::
                    $"hidden_quantity=" ++ H ++ semi :: $"order_count=" ++ C ++ [semi]))) m0
  = ($"order_count", C) :: ($"hidden_quantity", H) :: ($"visible_quantity", V) :: ($"price", P) :: m0.
Proof.
  intros P V H C m0 HP HV HH HC.
  assert (S1 : forall k v, clean v = true -> notin semi ($"" ++ k) = true -> notin semi (k ++ v) = true).
  { intros k v Hv Hk. cbn [app list_ascii_of_string] in Hk. rewrite notin_app, Hk, (clean_semi _ Hv). reflexivity. }
  rewrite (app_assoc $"price=" P), split_app by (apply S1; [exact HP|reflexivity]).
  rewrite (app_assoc $"visible_quantity=" V), split_app by (apply S1; [exact HV|reflexivity]).
  rewrite (app_assoc $"hidden_quantity=" H), split_app by (apply S1; [exact HH|reflexivity]).
  rewrite (app_assoc $"order_count=" C), split_app by (apply S1; [exact HC|reflexivity]).
  cbn [split filter].
  change (is_empty ($"price=" ++ P)) with false. change (is_empty ($"visible_quantity=" ++ V)) with false.
  change (is_empty ($"hidden_quantity=" ++ H)) with false. change (is_empty ($"order_count=" ++ C)) with false.
  cbn [negb is_empty fold_left].
  change ($"price=" ++ P) with ($"price" ++ eq_c :: P).
  change ($"visible_quantity=" ++ V) with ($"visible_quantity" ++ eq_c :: V).
  change ($"hidden_quantity=" ++ H) with ($"hidden_quantity" ++ eq_c :: H).
  change ($"order_count=" ++ C) with ($"order_count" ++ eq_c :: C).
  rewrite !splitn2_app by reflexivity. reflexivity.
Qed.

Lemma level_skeleton : forall (P V H C body : str),
  clean P = true -> clean V = true -> clean H = true -> clean C = true ->
  all_ascii body = true -> notin rbr body = true ->
  parse_level ($"PriceLevel:price=" ++ P ++ $";visible_quantity=" ++ V ++ $";hidden_quantity=" ++ H ++
               $";order_count=" ++ C ++ $";orders=[" ++ body ++ [rbr])
  = (prc <- of_opt (parse_u64 P) ;;
     if is_empty body then POk (prc, [])
     else lvl_finish prc body (lvl_scan body body 0 0%Z 0 [])).
Proof.
  intros P V H C body HP HV HH HC Hb Hr.
  set (A := $"price=" ++ P ++ semi :: $"visible_quantity=" ++ V ++ semi ::
            $"hidden_quantity=" ++ H ++ semi :: $"order_count=" ++ C ++ [semi]).
  set (content := A ++ orders_kw ++ body ++ [rbr]).
  assert (Es : $"PriceLevel:price=" ++ P ++ $";visible_quantity=" ++ V ++ $";hidden_quantity=" ++ H ++
               $";order_count=" ++ C ++ $";orders=[" ++ body ++ [rbr] = $"PriceLevel:" ++ content).
  { unfold content, A.
    change ($"PriceLevel:price=") with ($"PriceLevel:" ++ $"price=").
    change ($";visible_quantity=") with (semi :: $"visible_quantity=").
    change ($";hidden_quantity=") with (semi :: $"hidden_quantity=").
    change ($";order_count=") with (semi :: $"order_count=").
    change ($";orders=[") with ([semi] ++ orders_kw).
    repeat (rewrite <- app_assoc || rewrite <- app_comm_cons). cbn [app]. reflexivity. }
  rewrite Es. clear Es.
  assert (HA2 : clean2 A = true).
  { unfold A. repeat (rewrite clean2_app || rewrite (clean_clean2 _ HP) || rewrite (clean_clean2 _ HV)
                      || rewrite (clean_clean2 _ HH) || rewrite (clean_clean2 _ HC)
                      || match goal with |- context [clean2 (semi :: ?x)] =>
                           change (clean2 (semi :: x)) with (okc2 semi && clean2 x) end).
    reflexivity. }
  assert (Hac : all_ascii content = true).
  { unfold content. rewrite !all_ascii_app, (clean2_ascii _ HA2), Hb. reflexivity. }
  assert (Has : all_ascii ($"PriceLevel:" ++ content) = true) by (rewrite all_ascii_app, Hac; reflexivity).
  unfold parse_level. rewrite starts_with_app. cbn [negb].
  change 11%nat with (length $"PriceLevel:").
  unfold slice_o at 1. rewrite slice_suffix by exact Has. cbn [unwrap bind].
  (* the orders block *)
  assert (Ef : find_sub orders_kw content = Some (length A)).
  { unfold content.
    change orders_kw with ($"orders=" ++ [lbr]).
    apply find_sub_unique_last; [reflexivity|apply clean2_notin; [reflexivity|exact HA2]]. }
  rewrite Ef.
  assert (E0 : slice content (length A) (length content) = Some (orders_kw ++ body ++ [rbr]))
    by (unfold content; apply slice_suffix; exact Hac).
  unfold slice_o at 1. rewrite E0. cbn [unwrap bind].
  assert (Efc : find_char rbr (orders_kw ++ body ++ [rbr]) = Some (length (orders_kw ++ body))).
  { rewrite app_assoc. apply find_char_app. rewrite notin_app, Hr. reflexivity. }
  rewrite Efc. cbn [of_opt bind].
  assert (E1 : slice content (length A + 8) (length (orders_kw ++ body) + length A) = Some body).
  { replace (length A + 8)%nat with (length (A ++ orders_kw)) by (rewrite app_length; reflexivity).
    replace (length (orders_kw ++ body) + length A)%nat with (length (A ++ orders_kw) + length body)%nat
      by (rewrite !app_length; lia).
    unfold content. rewrite (app_assoc A). apply slice_mid. rewrite <- app_assoc. exact Hac. }
  assert (E2 : slice content 0 (length A) = Some A) by (apply slice_prefix, Hac).
  assert (E3 : slice content (S (length (orders_kw ++ body) + length A)) (length content) = Some []).
  { replace (S (length (orders_kw ++ body) + length A)) with (length content)
      by (unfold content; rewrite !app_length; cbn [length]; lia).
    apply slice_empty_end, Hac. }
  unfold slice_o. rewrite E1. cbn [unwrap bind]. rewrite E2. cbn [unwrap bind]. rewrite E3. cbn [unwrap bind].
  rewrite app_nil_r. unfold A. rewrite fold_level_fields by assumption.
  change (get $"price" (($"order_count", C) :: ($"hidden_quantity", H) :: ($"visible_quantity", V) ::
                        ($"price", P) :: [($"orders", body)])) with (Some P).
  change (get $"orders" (($"order_count", C) :: ($"hidden_quantity", H) :: ($"visible_quantity", V) ::
                         ($"price", P) :: [($"orders", body)])) with (Some body).
  reflexivity.
Qed.

Definition wf_level_text (l : level_text) : Prop :=
  lt_price l < W /\ Forall wf_order_text (lt_orders l).

(* PriceLevel: equal content — the price and the list of orders (the printed aggregates
   are not read back: from_str recomputes them by add_order) *)
Theorem rt_level : forall l, wf_level_text l ->
  parse_level (print_level l) = POk (lt_price l, lt_orders l).
Proof.
  intros [p v h c os] [Hp Hos]. cbn [lt_price lt_vis lt_hid lt_cnt lt_orders] in *.
  unfold print_level. cbn [lt_price lt_vis lt_hid lt_cnt lt_orders].
  rewrite level_skeleton; try apply print_N_clean.
  - rewrite parse_u64_print by exact Hp. cbn [of_opt bind].
    destruct os as [|o os]; [reflexivity|].
    rewrite is_empty_false by (apply join_nonempty, print_order_nonempty).
    pose proof (lvl_list os o [] [] p Hos eq_refl) as L. cbn [app length rev] in L. exact L.
  - apply clean2_join_comma, print_order_clean2.
  - apply notin_join_comma; [reflexivity|reflexivity|apply print_order_clean2].
Qed.

(* ------------------------------------------------------------------ MatchResult: scanner steps *)

Definition FNF := find_next_field.
Definition BSC : str -> nat -> outcome (option nat) := fun s i => bscan (skipn i s) i 1%Z.

Lemma scan_semi_app : forall v rest pos,
  notin semi v = true -> scan_semi (v ++ semi :: rest) pos = ((pos + length v)%nat, true).
Proof.
  induction v as [|c v IH]; intros rest pos H.
  - cbn [app scan_semi length]. rewrite Ascii.eqb_refl, Nat.add_0_r. reflexivity.
  - rewrite notin_cons in H. apply andb_true_iff in H. destruct H as [H1 H2].
    cbn [app scan_semi]. destruct (Ascii.eqb c semi); [discriminate|].
    rewrite (IH rest (S pos) H2). cbn [length]. f_equal. lia.
Qed.

Lemma skipn_app_len : forall (a b : str), skipn (length a) (a ++ b) = b.
Proof. intros. rewrite skipn_app, skipn_all, Nat.sub_diag. reflexivity. Qed.

(* find_next_field on "...v;rest" *)
Lemma fnf_semi : forall pre v rest,
  all_ascii (pre ++ v ++ semi :: rest) = true -> notin semi v = true ->
  find_next_field (pre ++ v ++ semi :: rest) (length pre) = POk (v, length (pre ++ v ++ [semi])).
Proof.
  intros pre v rest Ha Hv. unfold find_next_field.
  destruct (Nat.ltb_spec (length (pre ++ v ++ semi :: rest)) (length pre)) as [L|L];
    [rewrite app_length in L; lia|].
  rewrite skipn_app_len, scan_semi_app by exact Hv.
  unfold slice_o. rewrite slice_mid by exact Ha. cbn [unwrap bind].
  f_equal. f_equal. rewrite !app_length. cbn [length]. lia.
Qed.

Lemma bscan_app : forall tb rest i,
  notin lbr tb = true -> notin rbr tb = true ->
  bscan (tb ++ rbr :: rest) i 1%Z = POk (Some (i + length tb)%nat).
Proof.
  induction tb as [|c tb IH]; intros rest i H1 H2.
  - cbn [app bscan length]. rewrite Ascii.eqb_refl, Nat.add_0_r. reflexivity.
  - rewrite notin_cons in H1, H2. apply andb_true_iff in H1, H2. destruct H1 as [A1 B1]. destruct H2 as [A2 B2].
    cbn [app bscan]. destruct (Ascii.eqb c rbr); [discriminate|]. destruct (Ascii.eqb c lbr); [discriminate|].
    rewrite (IH rest (S i) B1 B2). cbn [length]. f_equal. f_equal. lia.
Qed.

(* bracket_value on "...<opn>tb];rest" and on "...<opn>tb]" at the end of the string *)
Lemma bracket_value_semi : forall pre opn tb rest strict,
  all_ascii (pre ++ opn ++ tb ++ rbr :: semi :: rest) = true ->
  notin lbr tb = true -> notin rbr tb = true ->
  bracket_value BSC (pre ++ opn ++ tb ++ rbr :: semi :: rest) (length pre) (length pre + length opn) strict
  = POk (opn ++ tb ++ [rbr], length (pre ++ opn ++ tb ++ [rbr; semi])).
Proof.
  intros pre opn tb rest strict Ha H1 H2. unfold bracket_value, BSC.
  replace (length pre + length opn)%nat with (length (pre ++ opn)) by apply app_length.
  rewrite (app_assoc pre opn). rewrite skipn_app_len. rewrite bscan_app by assumption. cbn [bind].
  rewrite <- (app_assoc pre opn).
  set (s := pre ++ opn ++ tb ++ rbr :: semi :: rest) in *.
  assert (E1 : slice s (length pre) (S (length (pre ++ opn) + length tb)) = Some (opn ++ tb ++ [rbr])).
  { replace (S (length (pre ++ opn) + length tb)) with (length pre + length (opn ++ tb ++ [rbr]))%nat
      by (rewrite !app_length; cbn [length]; lia).
    unfold s. replace (pre ++ opn ++ tb ++ rbr :: semi :: rest) with (pre ++ (opn ++ tb ++ [rbr]) ++ semi :: rest)
      by (rewrite <- !app_assoc; reflexivity).
    apply slice_mid. rewrite <- !app_assoc. exact Ha. }
  unfold slice_o. rewrite E1. cbn [unwrap bind].
  assert (Ls : length s = (S (S (length (pre ++ opn) + length tb)) + length rest)%nat)
    by (unfold s; rewrite !app_length; cbn [length]; rewrite ?app_length; lia).
  destruct (Nat.ltb_spec (S (length (pre ++ opn) + length tb)) (length s)); [|lia].
  assert (E2 : slice s (S (length (pre ++ opn) + length tb)) (length s) = Some (semi :: rest)).
  { replace (S (length (pre ++ opn) + length tb)) with (length (pre ++ opn ++ tb ++ [rbr]))
      by (rewrite !app_length; cbn [length]; lia).
    unfold s. replace (pre ++ opn ++ tb ++ rbr :: semi :: rest) with ((pre ++ opn ++ tb ++ [rbr]) ++ semi :: rest)
      by (rewrite <- !app_assoc; reflexivity).
    apply slice_suffix. rewrite <- !app_assoc. exact Ha. }
  rewrite E2. cbn [unwrap bind starts_with]. rewrite Ascii.eqb_refl. cbn [andb].
  f_equal. f_equal. rewrite !app_length. cbn [length]. rewrite ?app_length. lia.
Qed.

Lemma bracket_value_end : forall pre opn tb strict,
  all_ascii (pre ++ opn ++ tb ++ [rbr]) = true ->
  notin lbr tb = true -> notin rbr tb = true ->
  bracket_value BSC (pre ++ opn ++ tb ++ [rbr]) (length pre) (length pre + length opn) strict
  = POk (opn ++ tb ++ [rbr], length (pre ++ opn ++ tb ++ [rbr])).
Proof.
  intros pre opn tb strict Ha H1 H2. unfold bracket_value, BSC.
  replace (length pre + length opn)%nat with (length (pre ++ opn)) by apply app_length.
  rewrite (app_assoc pre opn). rewrite skipn_app_len. rewrite bscan_app by assumption. cbn [bind].
  rewrite <- (app_assoc pre opn).
  set (s := pre ++ opn ++ tb ++ [rbr]) in *.
  assert (Ls : length s = S (length (pre ++ opn) + length tb))
    by (unfold s; rewrite !app_length; cbn [length]; lia).
  assert (E1 : slice s (length pre) (S (length (pre ++ opn) + length tb)) = Some (opn ++ tb ++ [rbr])).
  { rewrite <- Ls. unfold s. apply slice_suffix. exact Ha. }
  unfold slice_o. rewrite E1. cbn [unwrap bind].
  destruct (Nat.ltb_spec (S (length (pre ++ opn) + length tb)) (length s)); [lia|].
  f_equal. f_equal. exact (eq_sym Ls).
Qed.

(* ------------------------------------------------------------------ MatchResult: the field loop *)

Definition mr_body (fuel : nat) (s : str) (f : mrf) (name : str) (pos1 : nat) : outcome mrf :=
  if str_eqb name $"order_id" then
    '(v, np) <- FNF s pos1 ;;
    mr_loop FNF BSC fuel s np (mkMrf (Some v) (f_rem f) (f_comp f) (f_txs f) (f_filled f))
  else if str_eqb name $"remaining_quantity" then
    '(v, np) <- FNF s pos1 ;;
    mr_loop FNF BSC fuel s np (mkMrf (f_oid f) (Some v) (f_comp f) (f_txs f) (f_filled f))
  else if str_eqb name $"is_complete" then
    '(v, np) <- FNF s pos1 ;;
    mr_loop FNF BSC fuel s np (mkMrf (f_oid f) (f_rem f) (Some v) (f_txs f) (f_filled f))
  else if str_eqb name $"transactions" then
    rest1 <- slice_o s pos1 (length s) ;;
    if negb (starts_with $"Transactions:[" rest1) then PErr else
    '(v, np) <- bracket_value BSC s pos1 (pos1 + 14) true ;;
    mr_loop FNF BSC fuel s np (mkMrf (f_oid f) (f_rem f) (f_comp f) (Some v) (f_filled f))
  else if str_eqb name $"filled_order_ids" then
    rest1 <- slice_o s pos1 (length s) ;;
    if negb (starts_with [lbr] rest1) then PErr else
    '(v, np) <- bracket_value BSC s pos1 (pos1 + 1) false ;;
    mr_loop FNF BSC fuel s np (mkMrf (f_oid f) (f_rem f) (f_comp f) (f_txs f) (Some v))
  else PErr.

Lemma mr_iter : forall fuel pre name rest f,
  all_ascii (pre ++ name ++ eq_c :: rest) = true -> notin eq_c name = true ->
  mr_loop FNF BSC (S fuel) (pre ++ name ++ eq_c :: rest) (length pre) f
  = mr_body fuel (pre ++ name ++ eq_c :: rest) f name (length (pre ++ name ++ [eq_c])).
Proof.
  intros fuel pre name rest f Ha Hn.
  assert (E1 : slice (pre ++ name ++ eq_c :: rest) (length pre) (length (pre ++ name ++ eq_c :: rest))
               = Some (name ++ eq_c :: rest)) by (apply slice_suffix; exact Ha).
  assert (E2 : slice (pre ++ name ++ eq_c :: rest) (length pre) (length pre + length name) = Some name)
    by (apply slice_mid; exact Ha).
  assert (L : Nat.leb (length (pre ++ name ++ eq_c :: rest)) (length pre) = false).
  { apply Nat.leb_gt. rewrite !app_length. cbn [length]. lia. }
  assert (P1 : S (length pre + length name) = length (pre ++ name ++ [eq_c]))
    by (rewrite !app_length; cbn [length]; lia).
  remember (pre ++ name ++ eq_c :: rest) as s eqn:Es.
  cbn [mr_loop]. rewrite L. unfold slice_o at 1. rewrite E1. cbn [unwrap bind].
  rewrite find_char_app by exact Hn. cbn [of_opt bind].
  unfold slice_o at 1. rewrite E2. cbn [unwrap bind]. rewrite P1. reflexivity.
Qed.

Lemma mr_done : forall fuel s f, mr_loop FNF BSC fuel s (length s) f = POk f.
Proof. intros [|fuel] s f; cbn [mr_loop]; rewrite Nat.leb_refl; reflexivity. Qed.

Ltac norm_eq := repeat (rewrite <- app_assoc || rewrite <- app_comm_cons); cbn [app]; reflexivity.

Lemma mr_skeleton : forall (ID R B tb IDS : str) fuel,
  clean ID = true -> clean R = true -> clean B = true ->
  all_ascii tb = true -> notin lbr tb = true -> notin rbr tb = true ->
  all_ascii IDS = true -> notin lbr IDS = true -> notin rbr IDS = true ->
  let s := $"MatchResult:order_id=" ++ ID ++ $";remaining_quantity=" ++ R ++ $";is_complete=" ++ B ++
           $";transactions=" ++ ($"Transactions:[" ++ tb ++ [rbr]) ++
           $";filled_order_ids=[" ++ IDS ++ [rbr] in
  mr_loop FNF BSC (S (S (S (S (S fuel))))) s 12 mrf0 =
  POk (mkMrf (Some ID) (Some R) (Some B) (Some ($"Transactions:[" ++ tb ++ [rbr])) (Some (lbr :: IDS ++ [rbr]))).
Proof.
  intros ID R B tb IDS fuel HID HR HB Htb Htl Htr Hids Hil Hir s.
  set (TO := $"Transactions:[").
  set (p1 := $"MatchResult:").
  set (q1 := p1 ++ $"order_id" ++ [eq_c]).
  set (p2 := q1 ++ ID ++ [semi]).
  set (q2 := p2 ++ $"remaining_quantity" ++ [eq_c]).
  set (p3 := q2 ++ R ++ [semi]).
  set (q3 := p3 ++ $"is_complete" ++ [eq_c]).
  set (p4 := q3 ++ B ++ [semi]).
  set (q4 := p4 ++ $"transactions" ++ [eq_c]).
  set (p5 := q4 ++ TO ++ tb ++ [rbr; semi]).
  set (q5 := p5 ++ $"filled_order_ids" ++ [eq_c]).
  set (r1 := ID ++ semi :: $"remaining_quantity" ++ eq_c :: R ++ semi :: $"is_complete" ++ eq_c :: B ++ semi ::
             $"transactions" ++ eq_c :: TO ++ tb ++ rbr :: semi :: $"filled_order_ids" ++ eq_c :: lbr :: IDS ++ [rbr]).
  set (r2 := R ++ semi :: $"is_complete" ++ eq_c :: B ++ semi ::
             $"transactions" ++ eq_c :: TO ++ tb ++ rbr :: semi :: $"filled_order_ids" ++ eq_c :: lbr :: IDS ++ [rbr]).
  set (r3 := B ++ semi :: $"transactions" ++ eq_c :: TO ++ tb ++ rbr :: semi ::
             $"filled_order_ids" ++ eq_c :: lbr :: IDS ++ [rbr]).
  set (r4 := TO ++ tb ++ rbr :: semi :: $"filled_order_ids" ++ eq_c :: lbr :: IDS ++ [rbr]).
  set (r5 := lbr :: IDS ++ [rbr]).
  (* the shapes of s *)
  assert (S1 : s = p1 ++ $"order_id" ++ eq_c :: r1).
  { unfold s, r1, p1, TO.
    change ($"MatchResult:order_id=") with ($"MatchResult:" ++ $"order_id" ++ [eq_c]).
    change ($";remaining_quantity=") with (semi :: $"remaining_quantity" ++ [eq_c]).
    change ($";is_complete=") with (semi :: $"is_complete" ++ [eq_c]).
    change ($";transactions=") with (semi :: $"transactions" ++ [eq_c]).
    change ($";filled_order_ids=[") with (semi :: $"filled_order_ids" ++ [eq_c; lbr]).
    norm_eq. }
  assert (S1' : s = q1 ++ ID ++ semi :: ($"remaining_quantity" ++ eq_c :: r2)) by (rewrite S1; unfold q1, r1, r2; norm_eq).
  assert (S2 : s = p2 ++ $"remaining_quantity" ++ eq_c :: r2) by (rewrite S1'; unfold p2; norm_eq).
  assert (S2' : s = q2 ++ R ++ semi :: ($"is_complete" ++ eq_c :: r3)) by (rewrite S2; unfold q2, r2, r3; norm_eq).
  assert (S3 : s = p3 ++ $"is_complete" ++ eq_c :: r3) by (rewrite S2'; unfold p3; norm_eq).
  assert (S3' : s = q3 ++ B ++ semi :: ($"transactions" ++ eq_c :: r4)) by (rewrite S3; unfold q3, r3, r4; norm_eq).
  assert (S4 : s = p4 ++ $"transactions" ++ eq_c :: r4) by (rewrite S3'; unfold p4; norm_eq).
  assert (S4' : s = q4 ++ TO ++ tb ++ rbr :: semi :: ($"filled_order_ids" ++ eq_c :: r5))
    by (rewrite S4; unfold q4, r4, r5; norm_eq).
  assert (S5 : s = p5 ++ $"filled_order_ids" ++ eq_c :: r5) by (rewrite S4'; unfold p5; norm_eq).
  assert (S5' : s = q5 ++ [lbr] ++ IDS ++ [rbr]) by (rewrite S5; unfold q5, r5; norm_eq).
  assert (Ha : all_ascii s = true).
  { rewrite S1. unfold r1, p1, TO. repeat (rewrite all_ascii_app || rewrite (clean_ascii _ HID) || rewrite (clean_ascii _ HR)
      || rewrite (clean_ascii _ HB) || rewrite Htb || rewrite Hids
      || match goal with |- context [all_ascii (?c :: ?x)] =>
           change (all_ascii (c :: x)) with (is_ascii c && all_ascii x) end).
    reflexivity. }
  clearbody s.
  change 12%nat with (length p1).
  (* order_id *)
  rewrite S1 at 1. rewrite mr_iter by (try rewrite <- S1; first [exact Ha|reflexivity]). rewrite <- S1. fold q1.
  unfold mr_body. eval_str_eqb. cbv iota. unfold FNF at 1.
  rewrite S1' at 1. rewrite fnf_semi by (try rewrite <- S1'; first [exact Ha|apply clean_semi, HID]). rewrite <- ?S1'.
  cbn [bind]. fold p2. cbn [f_oid f_rem f_comp f_txs f_filled mrf0].
  (* remaining_quantity *)
  rewrite S2 at 1. rewrite mr_iter by (try rewrite <- S2; first [exact Ha|reflexivity]). rewrite <- S2. fold q2.
  unfold mr_body. eval_str_eqb. cbv iota. unfold FNF at 1.
  rewrite S2' at 1. rewrite fnf_semi by (try rewrite <- S2'; first [exact Ha|apply clean_semi, HR]). rewrite <- ?S2'.
  cbn [bind]. fold p3. cbn [f_oid f_rem f_comp f_txs f_filled].
  (* is_complete *)
  rewrite S3 at 1. rewrite mr_iter by (try rewrite <- S3; first [exact Ha|reflexivity]). rewrite <- S3. fold q3.
  unfold mr_body. eval_str_eqb. cbv iota. unfold FNF at 1.
  rewrite S3' at 1. rewrite fnf_semi by (try rewrite <- S3'; first [exact Ha|apply clean_semi, HB]). rewrite <- ?S3'.
  cbn [bind]. fold p4. cbn [f_oid f_rem f_comp f_txs f_filled].
  (* transactions *)
  rewrite S4 at 1. rewrite mr_iter by (try rewrite <- S4; first [exact Ha|reflexivity]). rewrite <- S4. fold q4.
  unfold mr_body. eval_str_eqb. cbv iota.
  assert (T1 : slice s (length q4) (length s) = Some r4).
  { assert (S4q : s = q4 ++ r4) by (rewrite S4; unfold q4; norm_eq).
    rewrite S4q at 1 2. apply slice_suffix. rewrite <- S4q. exact Ha. }
  unfold slice_o at 1. rewrite T1. cbn [unwrap bind].
  unfold r4 at 1. fold TO. rewrite starts_with_app. cbn [negb].
  change 14%nat with (length TO).
  rewrite S4' at 1. rewrite bracket_value_semi by (rewrite <- ?S4'; assumption). rewrite <- ?S4'.
  cbn [bind]. fold p5. cbn [f_oid f_rem f_comp f_txs f_filled].
  (* filled_order_ids *)
  rewrite S5 at 1. rewrite mr_iter by (try rewrite <- S5; first [exact Ha|reflexivity]). rewrite <- S5. fold q5.
  unfold mr_body. eval_str_eqb. cbv iota.
  assert (T2 : slice s (length q5) (length s) = Some r5).
  { assert (S5q : s = q5 ++ r5) by (rewrite S5; unfold q5; norm_eq).
    rewrite S5q at 1 2. apply slice_suffix. rewrite <- S5q. exact Ha. }
  unfold slice_o at 1. rewrite T2. cbn [unwrap bind].
  unfold r5 at 1. cbn [starts_with]. rewrite Ascii.eqb_refl. cbn [andb negb].
  change 1%nat with (length [lbr]).
  rewrite S5' at 1. rewrite bracket_value_end by (rewrite <- ?S5'; assumption).
  cbn [bind]. rewrite <- S5'. rewrite mr_done. reflexivity.
Qed.

(* ------------------------------------------------------------------ MatchResult *)

Definition wf_match_result (r : match_result) : Prop :=
  wf_oid (mr_order_id r) /\ Forall wf_txn (mr_txs r) /\ mr_remaining r < W /\ Forall wf_oid (mr_filled r).

Lemma print_oid_clean2 : forall k, clean2 (print_oid k) = true.
Proof. intro k. apply clean_clean2, print_oid_clean. Qed.

Lemma print_oid_nonempty : forall k, print_oid k <> [].
Proof.
  intros [u|u] E.
  - pose proof (print_uuid_length u) as L. unfold print_oid in E. rewrite E in L. discriminate.
  - pose proof (print_ulid_length u) as L. unfold print_oid in E. rewrite E in L. discriminate.
Qed.

Theorem rt_match_result : forall r, wf_match_result r ->
  parse_match_result (print_match_result r) = POk r.
Proof.
  intros [k txs rem comp ids] [Hk [Htx [Hrem Hids]]]. cbn [mr_order_id mr_txs mr_remaining mr_complete mr_filled] in *.
  unfold print_match_result, print_txlist. cbn [mr_order_id mr_txs mr_remaining mr_complete mr_filled].
  set (tb := join [comma] (map print_txn txs)).
  set (IDS := join [comma] (map print_oid ids)).
  assert (Htb : all_ascii tb = true) by (apply clean2_join_comma, print_txn_clean2).
  assert (Htl : notin lbr tb = true) by (apply notin_join_comma; [reflexivity|reflexivity|apply print_txn_clean2]).
  assert (Htr : notin rbr tb = true) by (apply notin_join_comma; [reflexivity|reflexivity|apply print_txn_clean2]).
  assert (Hia : all_ascii IDS = true) by (apply clean2_join_comma, print_oid_clean2).
  assert (Hil : notin lbr IDS = true) by (apply notin_join_comma; [reflexivity|reflexivity|apply print_oid_clean2]).
  assert (Hir : notin rbr IDS = true) by (apply notin_join_comma; [reflexivity|reflexivity|apply print_oid_clean2]).
  unfold parse_match_result, parse_match_result_gen.
  change (fun s0 i => bscan (skipn i s0) i 1%Z) with BSC. change find_next_field with FNF.
  match goal with |- context [starts_with $"MatchResult:" ?x] => set (s := x) end.
  assert (Sw : starts_with $"MatchResult:" s = true).
  { unfold s. change ($"MatchResult:order_id=") with ($"MatchResult:" ++ $"order_id=").
    rewrite <- app_assoc. apply starts_with_app. }
  rewrite Sw. cbn [negb].
  assert (Lf : exists n, length s = S (S (S (S n)))).
  { unfold s. change ($"MatchResult:order_id=") with ("M"%char :: "a"%char :: "t"%char :: "c"%char :: $"hResult:order_id=").
    cbn [app length]. eexists. reflexivity. }
  destruct Lf as [n Ln]. rewrite Ln.
  unfold s. rewrite (mr_skeleton (print_oid k) (print_N rem) (print_bool comp) tb IDS n);
    try assumption; try apply print_oid_clean; try apply print_N_clean; try apply print_bool_clean.
  cbn [bind f_oid f_rem f_comp f_txs f_filled of_opt].
  rewrite rt_oid by exact Hk. cbn [bind].
  rewrite parse_u64_print by exact Hrem. cbn [of_opt bind].
  rewrite parse_bool_print. cbn [of_opt bind].
  change ($"Transactions:[" ++ tb ++ [rbr]) with (print_txlist txs).
  rewrite rt_txlist by exact Htx. cbn [bind].
  destruct ids as [|k1 ids].
  - reflexivity.
  - assert (NE : IDS <> []) by (apply join_nonempty, print_oid_nonempty).
    assert (Ef : str_eqb (lbr :: IDS ++ [rbr]) $"[]" = false).
    { destruct IDS as [|c t]; [congruence|].
      rewrite notin_cons in Hir. apply andb_true_iff in Hir. destruct Hir as [Hc _].
      unfold rbr in Hc. cbn [app str_eqb list_ascii_of_string]. destruct (Ascii.eqb c "]"%char); [discriminate|].
      rewrite andb_false_r. reflexivity. }
    rewrite Ef. unfold usub. cbn [length Nat.leb bind].
    assert (Es : slice (lbr :: IDS ++ [rbr]) 1 (S (length (IDS ++ [rbr])) - 1) = Some IDS).
    { change (lbr :: IDS ++ [rbr]) with ([lbr] ++ IDS ++ [rbr]).
      replace (S (length (IDS ++ [rbr])) - 1)%nat with (length [lbr] + length IDS)%nat
        by (rewrite app_length; cbn [length]; lia).
      change 1%nat with (length [lbr]) at 1. apply slice_mid.
      rewrite !all_ascii_app, Hia. reflexivity. }
    unfold slice_o. rewrite Es. cbn [unwrap bind].
    rewrite is_empty_false by exact NE.
    unfold IDS. rewrite split_join; [|discriminate|apply join_comma_notin, print_oid_clean2].
    rewrite (map_o_map _ print_oid parse_oid wf_oid _ rt_oid Hids). reflexivity.
Qed.
