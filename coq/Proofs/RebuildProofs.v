(* RebuildProofs.v — snapshot / serialisation round trips (C10) and the behaviour
   of a restored level (C11).  Statements are collected in Properties/C10.v and
   Properties/C11.v. *)
From PL Require Import Model.Level Spec.Hist Spec.Priority Proofs.RebuildBase.
From Coq Require Import Lia ZifyBool ZifyN Sorted Permutation.
Local Open Scope N_scope.

(* ================================================================== *)
(* Vocabulary                                                          *)

(* the invariant of reachable levels that the rebuild theorems need *)
Definition Inv (l : level) : Prop := Agg l /\ WfQueue (lq l) /\ Fits l.

(* [l'] has the content of [l]: price, the orders field for field, the aggregates *)
Definition same_content (l' l : level) : Prop :=
  price l' = price l /\
  (forall k, lookup k (resting l') = lookup k (resting l)) /\
  Permutation (resting l') (resting l) /\
  Agg l' /\ cvis l' = cvis l /\ chid l' = chid l /\ ccnt l' = ccnt l /\
  WfQueue (lq l') /\ Fits l'.

(* behavioural equivalence: everything the trading operations can observe.
   Statistics and the internal list order of the map are not compared. *)
Definition Sim (l1 l2 : level) : Prop :=
  price l1 = price l2 /\ cvis l1 = cvis l2 /\ chid l1 = chid l2 /\ ccnt l1 = ccnt l2 /\
  tickets (lq l1) = tickets (lq l2) /\
  NoDup (ids (resting l1)) /\ NoDup (ids (resting l2)) /\
  forall k, lookup k (resting l1) = lookup k (resting l2).

(* timestamp of the order a ticket names (0 for a stale ticket) *)
Definition ticket_ts (l : level) (k : oid) : N :=
  match lookup k (resting l) with Some o => ts_of o | None => 0 end.

(* a clean level: one live ticket per resting order, queued in strictly increasing
   timestamp order *)
Definition Clean (l : level) : Prop :=
  NoDup (tickets (lq l)) /\
  (forall k, In k (tickets (lq l)) -> lookup k (resting l) <> None) /\
  Covered (lq l) /\
  NoDup (ids (resting l)) /\
  Sorted N.lt (map (ticket_ts l) (tickets (lq l))).

(* the continuations of C11: everything but a read (a read returns the listing and
   the statistics, which a rebuild resets) *)
Definition cont_op (o : op) : Prop := match o with ORead => False | _ => True end.
Definition trade_op (o : op) : Prop :=
  match o with OAdd _ | OMatch _ _ | OUpdate _ => True | _ => False end.

Lemma trade_op_cont_op o : trade_op o -> cont_op o.
Proof. destruct o; cbn; auto. Qed.

(* makers named by the match outputs of a history, in order *)
Definition makers_of (outs : list out) : list oid :=
  flat_map (fun x => match x with OutMatch r => map tx_maker (r_txs r) | _ => [] end) outs.

(* ================================================================== *)
(* C10.1  the listing                                                  *)

Lemma to_vec_perm q : Permutation (to_vec q) (qmap q).
Proof. apply sort_ts_perm. Qed.

Lemma to_vec_strongly_sorted q : StronglySorted ts_le (to_vec q).
Proof. apply sort_ts_sorted. Qed.

Lemma to_vec_Sorted q : Sorted ts_le (to_vec q).
Proof. apply StronglySorted_Sorted, to_vec_strongly_sorted. Qed.

Lemma to_vec_ts_sorted q : ts_sorted (to_vec q).
Proof. apply strongly_sorted_ts_sorted, to_vec_strongly_sorted. Qed.

Lemma Sorted_ts_sorted l : Sorted ts_le l -> ts_sorted l.
Proof. intros H. apply strongly_sorted_ts_sorted, Sorted_StronglySorted; [exact ts_le_trans|exact H]. Qed.

Lemma to_vec_listing l : listing_of l (to_vec (lq l)).
Proof. split; [apply to_vec_perm|apply to_vec_ts_sorted]. Qed.

Lemma to_vec_once q :
  NoDup (ids (qmap q)) ->
  NoDup (ids (to_vec q)) /\ NoDup (to_vec q) /\ (forall o, In o (to_vec q) <-> In o (qmap q)) /\
  forall o, In o (qmap q) -> exists! i, nth_error (to_vec q) i = Some o.
Proof.
  intros Hnd.
  assert (Hnd' : NoDup (ids (to_vec q))).
  { eapply Permutation_NoDup; [apply Permutation_sym, perm_ids, to_vec_perm|assumption]. }
  assert (Hnd'' : NoDup (to_vec q)) by (apply nodup_ids_nodup; assumption).
  split; [assumption|]. split; [assumption|]. split.
  - intros o. split; apply Permutation_in; [|apply Permutation_sym]; apply to_vec_perm.
  - intros o Hin.
    apply (Permutation_in _ (Permutation_sym (to_vec_perm q))) in Hin.
    apply In_nth_error in Hin. destruct Hin as [i Hi]. exists i. split; [assumption|].
    intros j Hj. rewrite NoDup_nth_error in Hnd''. apply Hnd''.
    + apply nth_error_Some. congruence.
    + congruence.
Qed.

Lemma listing_spec q :
  Permutation (to_vec q) (qmap q) /\
  Sorted ts_le (to_vec q) /\ StronglySorted ts_le (to_vec q) /\ ts_sorted (to_vec q) /\
  (NoDup (ids (qmap q)) ->
     NoDup (ids (to_vec q)) /\ NoDup (to_vec q) /\ (forall o, In o (to_vec q) <-> In o (qmap q)) /\
     forall o, In o (qmap q) -> exists! i, nth_error (to_vec q) i = Some o).
Proof.
  split; [apply to_vec_perm|]. split; [apply to_vec_Sorted|].
  split; [apply to_vec_strongly_sorted|]. split; [apply to_vec_ts_sorted|apply to_vec_once].
Qed.

(* ================================================================== *)
(* C10.2-4  the constructors                                           *)

(* the level both constructors produce from a duplicate-free list of orders *)
Definition canon (p : N) (os : list order) (s : stats) : level :=
  mkLevel p (sumv os) (sumh os) (N.of_nat (length os)) (mkQueue os (ids os)) s.

Lemma from_snapshot_canon p a b c os :
  NoDup (ids os) -> sumv os + sumh os < W ->
  from_snapshot (mkSnap p a b c os) = canon p os stats0.
Proof.
  intros Hnd Hs. unfold from_snapshot, refresh, canon.
  cbn [sn_price sn_vis sn_hid sn_cnt sn_orders].
  rewrite fold_sat_vis by lia. rewrite fold_sat_hid by lia.
  rewrite from_vec_nodup by assumption. rewrite !N.add_0_l. reflexivity.
Qed.

Lemma fold_add_order os : forall l,
  fold_left add_order os l =
  mkLevel (price l)
          (fold_left (fun a o => wadd a (vis o)) os (cvis l))
          (fold_left (fun a o => wadd a (hid o)) os (chid l))
          (fold_left (fun a (_ : order) => wadd a 1) os (ccnt l))
          (fold_left push os (lq l))
          (mkStats (fold_left (fun a (_ : order) => wadd a 1) os (s_added (st l)))
                   (s_removed (st l)) (s_executed (st l)) (s_qty (st l)) (s_value (st l))).
Proof.
  induction os as [|o os IH]; intros l; cbn [fold_left].
  - destruct l as [p v h c q [a r e y z]]; reflexivity.
  - rewrite IH. unfold add_order, record_added.
    cbn [price cvis chid ccnt lq st s_added s_removed s_executed s_qty s_value]. reflexivity.
Qed.

Lemma from_data_canon p os :
  NoDup (ids os) -> sumv os + sumh os < W -> N.of_nat (length os) < W ->
  from_data p os = canon p os (mkStats (N.of_nat (length os)) 0 0 0 0).
Proof.
  intros Hnd Hs Hl. unfold from_data. rewrite fold_add_order. unfold new_level, canon, stats0.
  cbn [price cvis chid ccnt lq st s_added s_removed s_executed s_qty s_value].
  rewrite fold_wadd_vis by lia. rewrite fold_wadd_hid by lia. rewrite !fold_wadd_one by lia.
  fold (from_vec os). rewrite from_vec_nodup by assumption. rewrite !N.add_0_l. reflexivity.
Qed.

Lemma lq_from_data p os : lq (from_data p os) = from_vec os.
Proof. unfold from_data. rewrite fold_add_order. reflexivity. Qed.

Lemma canon_Agg p os s : Agg (canon p os s).
Proof. unfold Agg, canon, resting; cbn. auto. Qed.

Lemma canon_WfQueue p os s : NoDup (ids os) -> WfQueue (lq (canon p os s)).
Proof.
  intros H. split; cbn [canon lq qmap]; [assumption|].
  intros o Ho. cbn [tickets]. apply in_map. assumption.
Qed.

Lemma canon_Fits p os s :
  sumv os + sumh os < W -> N.of_nat (length os) < W -> Fits (canon p os s).
Proof. intros H1 H2. split; assumption. Qed.

Lemma listing_nodup l listing :
  NoDup (ids (resting l)) -> listing_of l listing -> NoDup (ids listing).
Proof.
  intros Hnd [HP _]. eapply Permutation_NoDup; [apply Permutation_sym, perm_ids; exact HP|assumption].
Qed.

Lemma canon_same_content l listing s :
  Inv l -> listing_of l listing -> same_content (canon (price l) listing s) l.
Proof.
  intros ((Hv & Hh & Hc) & (Hnd & Hcov) & (Hf1 & Hf2)) HL.
  pose proof (listing_nodup _ _ Hnd HL) as Hnd'. destruct HL as [HP Hs].
  pose proof (sumv_perm _ _ HP) as Ev. pose proof (sumh_perm _ _ HP) as Eh.
  pose proof (Permutation_length HP) as El.
  unfold same_content. split; [reflexivity|]. split.
  { apply perm_meq; assumption. }
  split; [exact HP|]. split; [apply canon_Agg|].
  cbn [canon cvis chid ccnt]. split; [congruence|]. split; [congruence|]. split; [congruence|].
  split; [apply canon_WfQueue; assumption|]. apply canon_Fits; [rewrite Ev, Eh|rewrite El]; assumption.
Qed.

Lemma rebuild_content_snap l listing a b c :
  Inv l -> listing_of l listing ->
  let l' := from_snapshot (mkSnap (price l) a b c listing) in
  same_content l' l /\ st l' = stats0.
Proof.
  intros HI HL. pose proof HI as ((Hv & Hh & Hc) & (Hnd & Hcov) & (Hf1 & Hf2)).
  pose proof (listing_nodup _ _ Hnd HL) as Hnd'. pose proof HL as [HP _].
  cbv zeta. rewrite from_snapshot_canon;
    [|assumption|rewrite (sumv_perm _ _ HP), (sumh_perm _ _ HP); assumption].
  split; [apply canon_same_content; assumption|reflexivity].
Qed.

Lemma rebuild_content_data l listing :
  Inv l -> listing_of l listing ->
  let l' := from_data (price l) listing in
  same_content l' l /\ st l' = mkStats (N.of_nat (length listing)) 0 0 0 0.
Proof.
  intros HI HL. pose proof HI as ((Hv & Hh & Hc) & (Hnd & Hcov) & (Hf1 & Hf2)).
  pose proof (listing_nodup _ _ Hnd HL) as Hnd'. pose proof HL as [HP _].
  cbv zeta. rewrite from_data_canon;
    [|assumption|rewrite (sumv_perm _ _ HP), (sumh_perm _ _ HP); assumption
     |rewrite (Permutation_length HP); assumption].
  split; [apply canon_same_content; assumption|reflexivity].
Qed.

(* round trip through the model's own snapshot *)
Lemma snapshot_round_trip l :
  Inv l ->
  let l' := from_snapshot (snapshot_of l) in
  same_content l' l /\ st l' = stats0.
Proof. intros HI. unfold snapshot_of. apply rebuild_content_snap; [assumption|apply to_vec_listing]. Qed.

Lemma data_round_trip l :
  Inv l ->
  let l' := from_data (price l) (to_vec (lq l)) in
  same_content l' l /\ st l' = mkStats (N.of_nat (length (resting l))) 0 0 0 0.
Proof.
  intros HI. pose proof (rebuild_content_data l (to_vec (lq l)) HI (to_vec_listing l)) as H.
  rewrite (Permutation_length (to_vec_perm (lq l))) in H. exact H.
Qed.

(* external data: carried aggregates are never believed *)
Lemma from_snapshot_Agg s :
  NoDup (ids (sn_orders s)) -> sumv (sn_orders s) + sumh (sn_orders s) < W ->
  N.of_nat (length (sn_orders s)) < W ->
  let l' := from_snapshot s in
  Agg l' /\ WfQueue (lq l') /\ Fits l' /\ price l' = sn_price s /\ resting l' = sn_orders s.
Proof.
  destruct s as [p a b c os]; cbn [sn_orders sn_price]. intros Hnd Hs Hl. cbv zeta.
  rewrite from_snapshot_canon by assumption.
  split; [apply canon_Agg|]. split; [apply canon_WfQueue; assumption|].
  split; [apply canon_Fits; assumption|]. split; reflexivity.
Qed.

Lemma from_data_Agg p os :
  NoDup (ids os) -> sumv os + sumh os < W -> N.of_nat (length os) < W ->
  let l' := from_data p os in
  Agg l' /\ WfQueue (lq l') /\ Fits l' /\ price l' = p /\ resting l' = os.
Proof.
  intros Hnd Hs Hl. cbv zeta. rewrite from_data_canon by assumption.
  split; [apply canon_Agg|]. split; [apply canon_WfQueue; assumption|].
  split; [apply canon_Fits; assumption|]. split; reflexivity.
Qed.

Lemma from_snapshot_ignores_aggregates s s' :
  sn_price s = sn_price s' -> sn_orders s = sn_orders s' -> from_snapshot s = from_snapshot s'.
Proof.
  intros Hp Ho. unfold from_snapshot, refresh. cbn [sn_price sn_vis sn_hid sn_cnt sn_orders].
  rewrite Hp, Ho. reflexivity.
Qed.

Lemma from_snapshot_refresh s : from_snapshot s = from_snapshot (refresh s).
Proof. apply from_snapshot_ignores_aggregates; reflexivity. Qed.

Lemma refresh_idem s : refresh (refresh s) = refresh s.
Proof. reflexivity. Qed.

(* ================================================================== *)
(* C11.5  Sim is a bisimulation                                        *)

Lemma Sim_QSim l1 l2 :
  Sim l1 l2 <->
  price l1 = price l2 /\ cvis l1 = cvis l2 /\ chid l1 = chid l2 /\ ccnt l1 = ccnt l2 /\
  QSim (lq l1) (lq l2).
Proof. unfold Sim, QSim, resting, meq. tauto. Qed.

Lemma Sim_intro l1 l2 :
  price l1 = price l2 -> cvis l1 = cvis l2 -> chid l1 = chid l2 -> ccnt l1 = ccnt l2 ->
  QSim (lq l1) (lq l2) -> Sim l1 l2.
Proof. intros. apply Sim_QSim. auto. Qed.

Lemma Sim_refl l : NoDup (ids (resting l)) -> Sim l l.
Proof. intros H. unfold Sim. repeat split; assumption. Qed.

Lemma Sim_sym l1 l2 : Sim l1 l2 -> Sim l2 l1.
Proof.
  intros (H1 & H2 & H3 & H4 & H5 & H6 & H7 & H8). unfold Sim.
  repeat split; try assumption; try (intros k; symmetry; apply H8); congruence.
Qed.

Lemma Sim_trans l1 l2 l3 : Sim l1 l2 -> Sim l2 l3 -> Sim l1 l3.
Proof.
  intros (H1 & H2 & H3 & H4 & H5 & H6 & H7 & H8) (G1 & G2 & G3 & G4 & G5 & G6 & G7 & G8).
  unfold Sim. repeat split; try assumption; try (intros k; rewrite H8; apply G8); congruence.
Qed.

Lemma Sim_perm l1 l2 : Sim l1 l2 -> Permutation (resting l1) (resting l2).
Proof. intros (_ & _ & _ & _ & _ & H6 & H7 & H8). apply meq_perm; assumption. Qed.

Lemma Sim_Fits l1 l2 : Sim l1 l2 -> Fits l1 -> Fits l2.
Proof.
  intros HS [H1 H2]. pose proof (Sim_perm _ _ HS) as HP.
  split; [rewrite <- (sumv_perm _ _ HP), <- (sumh_perm _ _ HP)|rewrite <- (Permutation_length HP)];
    assumption.
Qed.

Lemma Sim_Agg l1 l2 : Sim l1 l2 -> Agg l1 -> Agg l2.
Proof.
  intros HS (H1 & H2 & H3). pose proof (Sim_perm _ _ HS) as HP.
  destruct HS as (_ & E2 & E3 & E4 & _).
  unfold Agg. rewrite <- (sumv_perm _ _ HP), <- (sumh_perm _ _ HP), <- (Permutation_length HP).
  repeat split; congruence.
Qed.

Lemma Sim_set_queue l1 l2 q1 q2 : Sim l1 l2 -> QSim q1 q2 -> Sim (set_queue l1 q1) (set_queue l2 q2).
Proof.
  intros H Hq. apply Sim_QSim in H. destruct H as (Hp & Hv & Hh & Hc & _).
  apply Sim_intro; unfold set_queue; cbn [price cvis chid ccnt lq]; assumption.
Qed.

Lemma add_order_sim l1 l2 o : Sim l1 l2 -> Sim (add_order l1 o) (add_order l2 o).
Proof.
  intros H. apply Sim_QSim in H. destruct H as (Hp & Hv & Hh & Hc & Hq).
  apply Sim_intro; unfold add_order; cbn [price cvis chid ccnt lq]; try congruence.
  apply QSim_push. assumption.
Qed.

Lemma take_out_sim l1 l2 k : Sim l1 l2 ->
  snd (take_out l1 k) = snd (take_out l2 k) /\ Sim (fst (take_out l1 k)) (fst (take_out l2 k)).
Proof.
  intros H. pose proof H as H0. apply Sim_QSim in H. destruct H as (Hp & Hv & Hh & Hc & Hq).
  unfold take_out. destruct (QSim_qremove _ _ k Hq) as [E Q].
  destruct (qremove (lq l1) k) as [[o1|] q1'], (qremove (lq l2) k) as [[o2|] q2'];
    cbn [fst snd] in E, Q |- *; try discriminate.
  - inversion E; subst o2. split; [reflexivity|].
    apply Sim_intro; cbn [price cvis chid ccnt lq]; first [congruence|assumption].
  - split; [reflexivity|assumption].
Qed.

Lemma amend_sim l1 l2 k nq : Sim l1 l2 ->
  snd (amend l1 k nq) = snd (amend l2 k nq) /\ Sim (fst (amend l1 k nq)) (fst (amend l2 k nq)).
Proof.
  intros H. pose proof H as H0. apply Sim_QSim in H. destruct H as (Hp & Hv & Hh & Hc & Hq).
  unfold amend, qfind. pose proof Hq as (_ & _ & _ & Hm).
  assert (Hk : lookup k (qmap (lq l2)) = lookup k (qmap (lq l1))) by (symmetry; apply Hm).
  rewrite Hk.
  destruct (lookup k (qmap (lq l1))) as [x|]; [|split; [reflexivity|assumption]].
  destruct (QSim_qremove _ _ k Hq) as [E Q].
  destruct (qremove (lq l1) k) as [[o1|] q1'], (qremove (lq l2) k) as [[o2|] q2'];
    cbn [fst snd] in E, Q |- *; try discriminate.
  - inversion E; subst o2. split; [reflexivity|].
    apply Sim_intro; cbn [price cvis chid ccnt lq]; try congruence.
    apply QSim_push. assumption.
  - split; [reflexivity|assumption].
Qed.

Lemma update_order_sim l1 l2 u : Sim l1 l2 ->
  snd (update_order l1 u) = snd (update_order l2 u) /\
  Sim (fst (update_order l1 u)) (fst (update_order l2 u)).
Proof.
  intros H. pose proof H as (Hp & _).
  destruct u as [k np|k nq|k np nq|k|k p q s]; cbn [update_order]; rewrite <- ?Hp.
  - destruct (np =? price l1); [split; [reflexivity|assumption]|apply take_out_sim; assumption].
  - apply amend_sim; assumption.
  - destruct (np =? price l1); [apply amend_sim|apply take_out_sim]; assumption.
  - apply take_out_sim; assumption.
  - destruct (p =? price l1); [apply amend_sim|apply take_out_sim]; assumption.
Qed.

Section WithMf.
Variable mf : order -> N -> mres.

Lemma visit_sim l1 l2 gen res taker rem o : Sim l1 l2 ->
  forall l1' g1 r1 m1 l2' g2 r2 m2,
  visit mf l1 gen res taker rem o = (l1', g1, r1, m1) ->
  visit mf l2 gen res taker rem o = (l2', g2, r2, m2) ->
  Sim l1' l2' /\ g1 = g2 /\ r1 = r2 /\ m1 = m2.
Proof.
  intros H. apply Sim_QSim in H. destruct H as (Hp & Hv & Hh & Hc & Hq).
  intros l1' g1 r1 m1 l2' g2 r2 m2. unfold visit. rewrite <- Hp, <- Hv, <- Hh, <- Hc.
  destruct (mf o rem) as [c u hr rm]; cbn [m_consumed m_updated m_hidden_reduced m_remaining].
  destruct (0 <? c); destruct u as [u|].
  - destruct (0 <? hr); intros E1 E2; inversion E1; inversion E2; subst;
      (split; [apply Sim_intro; cbn [price cvis chid ccnt lq]; try reflexivity;
               apply QSim_push; assumption|auto]).
  - intros E1 E2; inversion E1; inversion E2; subst.
    split; [apply Sim_intro; cbn [price cvis chid ccnt lq]; try reflexivity; assumption|auto].
  - destruct (0 <? hr); intros E1 E2; inversion E1; inversion E2; subst;
      (split; [apply Sim_intro; cbn [price cvis chid ccnt lq]; try reflexivity;
               apply QSim_push; assumption|auto]).
  - intros E1 E2; inversion E1; inversion E2; subst.
    split; [apply Sim_intro; cbn [price cvis chid ccnt lq]; try reflexivity; assumption|auto].
Qed.

Definition MSim (s1 s2 : mstate) : Prop :=
  Sim (ms_lvl s1) (ms_lvl s2) /\ ms_gen s1 = ms_gen s2 /\ ms_res s1 = ms_res s2 /\
  ms_rem s1 = ms_rem s2 /\ ms_aside s1 = ms_aside s2.

Definition omsim (a b : option mstate) : Prop :=
  match a, b with
  | Some s1, Some s2 => MSim s1 s2
  | None, None => True
  | _, _ => False
  end.

Lemma match_loop_sim fuel taker : forall s1 s2, MSim s1 s2 ->
  omsim (match_loop mf fuel taker s1) (match_loop mf fuel taker s2).
Proof.
  induction fuel as [|f IH]; intros s1 s2 HS; pose proof HS as (Hl & Hg & Hr & Hm & Ha);
    cbn [match_loop]; rewrite <- Hm.
  - destruct (ms_rem s1 =? 0); [exact HS|exact I].
  - destruct (ms_rem s1 =? 0); [exact HS|].
    pose proof Hl as Hl0. apply Sim_QSim in Hl0. destruct Hl0 as (_ & _ & _ & _ & Hq).
    destruct (QSim_pop _ _ Hq) as [E Q].
    destruct (pop (lq (ms_lvl s1))) as [[o1|] q1'], (pop (lq (ms_lvl s2))) as [[o2|] q2'];
      cbn [fst snd] in E, Q; try discriminate.
    + inversion E; subst o2. rewrite <- Hg, <- Hr, <- Ha.
      pose proof (Sim_set_queue _ _ _ _ Hl Q) as Hl'.
      destruct ((m_consumed (mf o1 (ms_rem s1)) =? 0) && (m_hidden_reduced (mf o1 (ms_rem s1)) =? 0)
                && is_some (m_updated (mf o1 (ms_rem s1)))).
      * apply IH. unfold MSim; cbn [ms_lvl ms_gen ms_res ms_rem ms_aside]. auto.
      * destruct (visit mf (set_queue (ms_lvl s1) q1') (ms_gen s1) (ms_res s1) taker (ms_rem s1) o1)
          as [[[l1' g1] r1] m1] eqn:V1.
        destruct (visit mf (set_queue (ms_lvl s2) q2') (ms_gen s1) (ms_res s1) taker (ms_rem s1) o1)
          as [[[l2' g2] r2] m2] eqn:V2.
        destruct (visit_sim _ _ _ _ _ _ _ Hl' _ _ _ _ _ _ _ _ V1 V2) as (S' & -> & -> & ->).
        apply IH. unfold MSim; cbn [ms_lvl ms_gen ms_res ms_rem ms_aside]. auto.
    + unfold omsim, MSim; cbn [ms_lvl ms_gen ms_res ms_rem ms_aside].
      split; [apply Sim_set_queue; assumption|auto].
Qed.

Lemma finish_sim s1 s2 : MSim s1 s2 ->
  Sim (fst (fst (finish s1))) (fst (fst (finish s2))) /\
  snd (fst (finish s1)) = snd (fst (finish s2)) /\ snd (finish s1) = snd (finish s2).
Proof.
  intros (Hl & Hg & Hr & Hm & Ha). unfold finish; cbn [fst snd]. rewrite <- Hg, <- Hr, <- Hm, <- Ha.
  split; [|auto]. apply Sim_set_queue; [assumption|]. apply QSim_fold_push.
  apply Sim_QSim in Hl. apply Hl.
Qed.

Definition osim (a b : option (level * N * result)) : Prop :=
  match a, b with
  | Some (l1, g1, r1), Some (l2, g2, r2) => Sim l1 l2 /\ g1 = g2 /\ r1 = r2
  | None, None => True
  | _, _ => False
  end.

Lemma match_order_sim fuel l1 l2 g q t : Sim l1 l2 ->
  osim (match_order mf fuel l1 g q t) (match_order mf fuel l2 g q t).
Proof.
  intros H. unfold match_order.
  assert (HS : MSim (mkMstate l1 g (result_new t q) q []) (mkMstate l2 g (result_new t q) q []))
    by (unfold MSim; cbn; auto).
  pose proof (match_loop_sim fuel t _ _ HS) as HL.
  destruct (match_loop mf fuel t (mkMstate l1 g (result_new t q) q [])) as [s1|],
           (match_loop mf fuel t (mkMstate l2 g (result_new t q) q [])) as [s2|];
    cbn [omsim] in HL; try contradiction; [|exact I].
  pose proof (finish_sim _ _ HL) as (F1 & F2 & F3).
  unfold osim. destruct (finish s1) as [[a1 b1] c1], (finish s2) as [[a2 b2] c2].
  cbn [fst snd] in *. auto.
Qed.

(* more fuel does not change the answer *)
Lemma match_loop_mono f : forall t s r,
  match_loop mf f t s = Some r -> forall f', (f <= f')%nat -> match_loop mf f' t s = Some r.
Proof.
  induction f as [|f IH]; intros t s r H f' Hle.
  - cbn [match_loop] in H. destruct (ms_rem s =? 0) eqn:E; [|discriminate].
    destruct f'; cbn [match_loop]; rewrite E; assumption.
  - destruct f' as [|f']; [lia|]. cbn [match_loop] in H |- *.
    destruct (ms_rem s =? 0); [assumption|].
    destruct (pop (lq (ms_lvl s))) as [[o|] q']; [|assumption].
    destruct ((m_consumed (mf o (ms_rem s)) =? 0) && (m_hidden_reduced (mf o (ms_rem s)) =? 0)
              && is_some (m_updated (mf o (ms_rem s)))).
    + apply IH with (f' := f') in H; [assumption|lia].
    + destruct (visit mf (set_queue (ms_lvl s) q') (ms_gen s) (ms_res s) t (ms_rem s) o)
        as [[[l' g'] r'] m'].
      apply IH with (f' := f') in H; [assumption|lia].
Qed.

Lemma match_order_mono f l g q t x :
  match_order mf f l g q t = Some x -> forall f', (f <= f')%nat -> match_order mf f' l g q t = Some x.
Proof.
  unfold match_order. intros H f' Hle.
  destruct (match_loop mf f t (mkMstate l g (result_new t q) q [])) as [s|] eqn:E; [|discriminate].
  rewrite (match_loop_mono _ _ _ _ E _ Hle). assumption.
Qed.

Lemma match_order_fuel_irrelevant f1 f2 l g q t x1 x2 :
  match_order mf f1 l g q t = Some x1 -> match_order mf f2 l g q t = Some x2 -> x1 = x2.
Proof.
  intros H1 H2.
  apply match_order_mono with (f' := Nat.max f1 f2) in H1; [|lia].
  apply match_order_mono with (f' := Nat.max f1 f2) in H2; [|lia]. congruence.
Qed.

(* ---- histories ---- *)

(* histories without the side conditions of [steps] *)
Inductive run : sys -> list op -> sys -> list out -> Prop :=
| run_nil s : run s [] s []
| run_cons s o s1 x ops s' outs :
    step mf s o s1 x -> run s1 ops s' outs -> run s (o :: ops) s' (x :: outs).

Lemma steps_run s ops s' outs : steps mf s ops s' outs -> run s ops s' outs.
Proof. induction 1; econstructor; eassumption. Qed.

Lemma step_det s o s1 x1 s2 x2 : step mf s o s1 x1 -> step mf s o s2 x2 -> s1 = s2 /\ x1 = x2.
Proof.
  intros H1 H2. inversion H1; subst; inversion H2; subst; try (split; reflexivity).
  - match goal with
    | A : match_order mf _ _ _ _ _ = Some _, B : match_order mf _ _ _ _ _ = Some _ |- _ =>
        pose proof (match_order_fuel_irrelevant _ _ _ _ _ _ _ _ A B) as E; inversion E; subst
    end. split; reflexivity.
  - match goal with
    | A : update_order _ _ = _, B : update_order _ _ = _ |- _ => rewrite A in B; inversion B; subst
    end. split; reflexivity.
Qed.

Lemma Sim_listing l1 l2 listing : Sim l1 l2 -> listing_of l1 listing -> listing_of l2 listing.
Proof.
  intros HS [HP Hs]. split; [|assumption].
  eapply Permutation_trans; [exact HP|apply Sim_perm; assumption].
Qed.

(* one operation on two equivalent levels: the second can follow, with the same
   output and generator, into equivalent levels *)
Lemma step_sim l1 l2 g o s1 x :
  Sim l1 l2 -> cont_op o -> step mf (l1, g) o s1 x ->
  exists l2', step mf (l2, g) o (l2', snd s1) x /\ Sim (fst s1) l2'.
Proof.
  intros HS Hc H. inversion H; subst; cbn [fst snd].
  - eexists. split; [constructor|]. apply add_order_sim. assumption.
  - match goal with A : match_order mf ?f _ _ _ _ = Some _ |- _ =>
      pose proof (match_order_sim f _ _ g qty taker HS) as HO; rewrite A in HO end.
    destruct (match_order mf fuel l2 g qty taker) as [[[l2' g2] r2]|] eqn:E2;
      cbn [osim] in HO; [|contradiction].
    destruct HO as (S' & -> & ->). exists l2'. split; [econstructor; eassumption|assumption].
  - pose proof (update_order_sim _ _ u HS) as [E S'].
    match goal with A : update_order l1 u = _ |- _ => rewrite A in E, S' end.
    cbn [fst snd] in E, S'.
    exists (fst (update_order l2 u)). split; [|assumption].
    constructor. rewrite E. destruct (update_order l2 u); reflexivity.
  - pose proof HS as (Hp & Hv & Hh & Hcn & _).
    exists (from_snapshot (mkSnap (price l2) (cvis l2) (chid l2) (ccnt l2) listing)).
    split; [constructor; eapply Sim_listing; eassumption|].
    rewrite Hp, Hv, Hh, Hcn. apply Sim_refl. apply nodup_from_vec.
  - pose proof HS as (Hp & _).
    exists (from_data (price l2) listing).
    split; [constructor; eapply Sim_listing; eassumption|].
    rewrite Hp. apply Sim_refl. unfold resting. rewrite lq_from_data. apply nodup_from_vec.
  - destruct Hc.
Qed.

Lemma run_sim ops : forall l1 l2 g s1 outs,
  Sim l1 l2 -> Forall cont_op ops -> run (l1, g) ops s1 outs ->
  exists l2', run (l2, g) ops (l2', snd s1) outs /\ Sim (fst s1) l2'.
Proof.
  induction ops as [|o ops IH]; intros l1 l2 g s1 outs HS HF HR.
  - inversion HR; subst. exists l2. split; [constructor|assumption].
  - inversion HR as [|s0 o0 sa x ops0 s' outs0 Hstep Hrun]; subst.
    inversion HF as [|? ? Hco HF']; subst. destruct sa as [la ga].
    destruct (step_sim _ _ _ _ _ _ HS Hco Hstep) as (lb & Hstep2 & HS').
    cbn [fst snd] in Hstep2, HS'.
    destruct (IH _ _ _ _ _ HS' HF' Hrun) as (l2' & Hrun2 & HS'').
    exists l2'. split; [econstructor; eassumption|assumption].
Qed.

Lemma run_det ops : forall s s1 outs1 s2 outs2,
  run s ops s1 outs1 -> run s ops s2 outs2 -> s1 = s2 /\ outs1 = outs2.
Proof.
  induction ops as [|o ops IH]; intros s s1 outs1 s2 outs2 H1 H2.
  - inversion H1; subst; inversion H2; subst. split; reflexivity.
  - inversion H1 as [|? ? sa xa ? ? outsa Hsa Hra]; subst.
    inversion H2 as [|? ? sb xb ? ? outsb Hsb Hrb]; subst.
    destruct (step_det _ _ _ _ _ _ Hsa Hsb) as [-> ->].
    destruct (IH _ _ _ _ _ Hra Hrb) as [-> ->].
    split; reflexivity.
Qed.

(* C11 continuation: any two runs of the same continuation from equivalent levels
   give the same outputs and generator and end in equivalent levels *)
Lemma C11_continuation_run ops l1 l2 g s1 outs1 s2 outs2 :
  Sim l1 l2 -> Forall cont_op ops ->
  run (l1, g) ops s1 outs1 -> run (l2, g) ops s2 outs2 ->
  outs1 = outs2 /\ snd s1 = snd s2 /\ Sim (fst s1) (fst s2).
Proof.
  intros HS HF H1 H2. destruct (run_sim _ _ _ _ _ _ HS HF H1) as (l2' & H2' & HS').
  destruct (run_det _ _ _ _ _ _ H2 H2') as [-> ->]. cbn [fst snd]. auto.
Qed.

(* the same inside the domain of [steps] (ids unique, 64-bit sizes, sums that fit) *)
Lemma ok_op_sim l1 l2 g o : Sim l1 l2 -> ok_op (l1, g) o -> ok_op (l2, g) o.
Proof.
  intros (_ & _ & _ & _ & _ & _ & _ & Hm) H. destruct o; cbn [ok_op fst] in *; try assumption.
  rewrite <- Hm. assumption.
Qed.

Lemma steps_sim ops : forall l1 l2 g s1 outs,
  Sim l1 l2 -> Forall cont_op ops -> steps mf (l1, g) ops s1 outs ->
  exists l2', steps mf (l2, g) ops (l2', snd s1) outs /\ Sim (fst s1) l2'.
Proof.
  induction ops as [|o ops IH]; intros l1 l2 g s1 outs HS HF HR.
  - inversion HR; subst. exists l2. split; [constructor|assumption].
  - inversion HR as [|s0 o0 sa x ops0 s' outs0 Hok Hstep Hfit Hrun]; subst.
    inversion HF as [|? ? Hco HF']; subst. destruct sa as [la ga].
    destruct (step_sim _ _ _ _ _ _ HS Hco Hstep) as (lb & Hstep2 & HS').
    cbn [fst snd] in Hstep2, HS', Hfit.
    destruct (IH _ _ _ _ _ HS' HF' Hrun) as (l2' & Hrun2 & HS'').
    exists l2'. split; [|assumption].
    econstructor; [eapply ok_op_sim; eassumption|exact Hstep2| |exact Hrun2].
    cbn [fst]. eapply Sim_Fits; eassumption.
Qed.

End WithMf.

(* ================================================================== *)
(* C11.6  a clean level is restored up to Sim                          *)

Lemma clean_ids_listing l listing :
  Clean l -> listing_of l listing -> ids listing = tickets (lq l).
Proof.
  intros (HndT & Hlive & Hcov & Hnd & Hsort) HL.
  pose proof (listing_nodup _ _ Hnd HL) as Hnd'. destruct HL as [HP Hs].
  apply (sorted_perm_unique oid (ticket_ts l)).
  - apply NoDup_Permutation; try assumption. intros k. split; intros Hk.
    + apply (Permutation_in _ (perm_ids _ _ HP)) in Hk. apply in_map_iff in Hk.
      destruct Hk as (o & <- & Ho). apply Hcov. exact Ho.
    + apply (Permutation_in _ (Permutation_sym (perm_ids _ _ HP))).
      apply lookup_live_in. apply Hlive. assumption.
  - apply (strongly_sorted_map _ _ ts_le); [|apply ts_sorted_strongly_sorted; assumption].
    intros a b Ha Hb Hab. unfold ticket_ts.
    rewrite (lookup_in_nodup _ a Hnd) by (eapply Permutation_in; eassumption).
    rewrite (lookup_in_nodup _ b Hnd) by (eapply Permutation_in; eassumption).
    exact Hab.
  - apply (strongly_sorted_map_inv _ _ _ N.lt (ticket_ts l)); [auto|].
    apply Sorted_StronglySorted; [|assumption]. intros a b c; apply N.lt_trans.
Qed.

Lemma restore_identity l listing a b c :
  Clean l -> Inv l -> listing_of l listing ->
  Sim (from_snapshot (mkSnap (price l) a b c listing)) l.
Proof.
  intros HC HI HL. pose proof (clean_ids_listing _ _ HC HL) as Hids.
  pose proof HI as ((Hv & Hh & Hc) & (Hnd & Hcov) & (Hf1 & Hf2)).
  pose proof (listing_nodup _ _ Hnd HL) as Hnd'. pose proof HL as [HP _].
  rewrite from_snapshot_canon;
    [|assumption|rewrite (sumv_perm _ _ HP), (sumh_perm _ _ HP); assumption].
  unfold Sim, canon, resting; cbn [price cvis chid ccnt lq qmap tickets].
  rewrite (sumv_perm _ _ HP), (sumh_perm _ _ HP), (Permutation_length HP).
  repeat split; try congruence; try assumption.
  apply perm_meq; assumption.
Qed.

Lemma restore_identity_data l listing :
  Clean l -> Inv l -> listing_of l listing -> Sim (from_data (price l) listing) l.
Proof.
  intros HC HI HL. pose proof (clean_ids_listing _ _ HC HL) as Hids.
  pose proof HI as ((Hv & Hh & Hc) & (Hnd & Hcov) & (Hf1 & Hf2)).
  pose proof (listing_nodup _ _ Hnd HL) as Hnd'. pose proof HL as [HP _].
  rewrite from_data_canon;
    [|assumption|rewrite (sumv_perm _ _ HP), (sumh_perm _ _ HP); assumption
     |rewrite (Permutation_length HP); assumption].
  unfold Sim, canon, resting; cbn [price cvis chid ccnt lq qmap tickets].
  rewrite (sumv_perm _ _ HP), (sumh_perm _ _ HP), (Permutation_length HP).
  repeat split; try congruence; try assumption.
  apply perm_meq; assumption.
Qed.

(* a restored clean level trades exactly like the original *)
Lemma restored_trades_alike mf l listing a b c g ops s1 outs :
  Clean l -> Inv l -> listing_of l listing -> Forall cont_op ops ->
  run mf (l, g) ops s1 outs ->
  exists l2', run mf (from_snapshot (mkSnap (price l) a b c listing), g) ops (l2', snd s1) outs /\
              Sim (fst s1) l2'.
Proof.
  intros HC HI HL HF HR. eapply run_sim; try eassumption.
  apply Sim_sym. apply restore_identity; assumption.
Qed.

Lemma restored_outputs_equal mf l listing a b c g ops s1 outs1 s2 outs2 :
  Clean l -> Inv l -> listing_of l listing -> Forall cont_op ops ->
  run mf (l, g) ops s1 outs1 ->
  run mf (from_snapshot (mkSnap (price l) a b c listing), g) ops s2 outs2 ->
  outs1 = outs2 /\ snd s1 = snd s2 /\ Sim (fst s1) (fst s2).
Proof.
  intros HC HI HL HF H1 H2. eapply C11_continuation_run; try eassumption.
  apply Sim_sym. apply restore_identity; assumption.
Qed.

(* ================================================================== *)
(* Executable histories and boolean checkers (for closed examples)     *)

Definition wf_order_b (o : order) : bool :=
  (vis o + hid o <? W) &&
  match o with
  | Reserve _ _ _ thr amt _ => (thr <? W) && match amt with Some a => a <? W | None => true end
  | _ => true
  end.

Lemma wf_order_b_sound o : wf_order_b o = true -> wf_order o.
Proof.
  unfold wf_order_b, wf_order. intros H. apply andb_prop in H. destruct H as [H1 H2].
  split; [lia|]. destruct o; try exact I.
  apply andb_prop in H2. destruct H2 as [H2 H3]. split; [lia|]. destruct amt; [lia|exact I].
Qed.

Definition ok_op_b (s : sys) (o : op) : bool :=
  match o with
  | OAdd x => negb (is_some (lookup (oid_of x) (resting (fst s)))) && wf_order_b x
  | OMatch qty _ => qty <? W
  | OUpdate (UpdateQuantity _ nq) | OUpdate (UpdatePriceAndQuantity _ _ nq)
  | OUpdate (Replace _ _ nq _) => nq <? W
  | _ => true
  end.

Lemma ok_op_b_sound s o : ok_op_b s o = true -> ok_op s o.
Proof.
  destruct o as [x|q t|u|ls|ls|]; cbn [ok_op_b ok_op]; intros H; try exact I.
  - apply andb_prop in H. destruct H as [H1 H2]. split; [|apply wf_order_b_sound; assumption].
    destruct (lookup (oid_of x) (resting (fst s))); [discriminate|reflexivity].
  - lia.
  - destruct u; try exact I; lia.
Qed.

Definition fits_b (l : level) : bool :=
  (sumv (resting l) + sumh (resting l) <? W) && (N.of_nat (length (resting l)) <? W).

Lemma fits_b_sound l : fits_b l = true -> Fits l.
Proof. unfold fits_b, Fits. intros H. apply andb_prop in H. destruct H. split; lia. Qed.

Section Exec.
Variable mf : order -> N -> mres.

(* runs a trading history (adds, matches, updates) on fixed fuel, checking the side
   conditions of [steps] on the way *)
Definition exec1 (fuel : nat) (s : sys) (o : op) : option (sys * out) :=
  match o with
  | OAdd x => Some ((add_order (fst s) x, snd s), OutAdd x)
  | OMatch q t =>
      match match_order mf fuel (fst s) (snd s) q t with
      | Some (l', g', r) => Some ((l', g'), OutMatch r)
      | None => None
      end
  | OUpdate u => Some ((fst (update_order (fst s) u), snd s), OutUpdate (snd (update_order (fst s) u)))
  | _ => None
  end.

Fixpoint exec (fuel : nat) (s : sys) (ops : list op) : option (sys * list out) :=
  match ops with
  | [] => Some (s, [])
  | o :: ops' =>
      if ok_op_b s o then
        match exec1 fuel s o with
        | Some (s1, x) =>
            if fits_b (fst s1) then
              match exec fuel s1 ops' with
              | Some (s', outs) => Some (s', x :: outs)
              | None => None
              end
            else None
        | None => None
        end
      else None
  end.

Lemma exec1_step fuel s o s1 x : exec1 fuel s o = Some (s1, x) -> step mf s o s1 x.
Proof.
  destruct s as [l g]. destruct o as [y|q t|u|ls|ls|]; cbn [exec1 fst snd]; intros H; try discriminate.
  - inversion H; subst. constructor.
  - destruct (match_order mf fuel l g q t) as [[[l' g'] r]|] eqn:E; [|discriminate].
    inversion H; subst. econstructor; eassumption.
  - inversion H; subst. constructor. destruct (update_order l u); reflexivity.
Qed.

Lemma exec_steps fuel ops : forall s s' outs,
  exec fuel s ops = Some (s', outs) -> steps mf s ops s' outs.
Proof.
  induction ops as [|o ops IH]; intros s s' outs H; cbn [exec] in H.
  - inversion H; subst. constructor.
  - destruct (ok_op_b s o) eqn:Ok; [|discriminate].
    destruct (exec1 fuel s o) as [[s1 x]|] eqn:E1; [|discriminate].
    destruct (fits_b (fst s1)) eqn:Ef; [|discriminate].
    destruct (exec fuel s1 ops) as [[s2 outs2]|] eqn:E2; [|discriminate].
    inversion H; subst. econstructor.
    + apply ok_op_b_sound; assumption.
    + eapply exec1_step; eassumption.
    + apply fits_b_sound; assumption.
    + apply IH; assumption.
Qed.

Lemma exec_run fuel ops s s' outs : exec fuel s ops = Some (s', outs) -> run mf s ops s' outs.
Proof. intros H. apply steps_run. eapply exec_steps; eassumption. Qed.

Lemma exec_reachable fuel p g0 ops l g outs :
  (p <? W) = true -> exec fuel (new_level p, g0) ops = Some ((l, g), outs) -> reachable mf (l, g).
Proof.
  intros Hp H. exists p, g0, ops, outs. split; [lia|]. eapply exec_steps; eassumption.
Qed.

End Exec.

(* boolean checkers for Inv and Clean *)
Fixpoint nodup_b (l : list oid) : bool :=
  match l with
  | [] => true
  | x :: l' => negb (existsb (oid_eqb x) l') && nodup_b l'
  end.

Lemma existsb_oid x l : existsb (oid_eqb x) l = true <-> In x l.
Proof.
  rewrite existsb_exists. split.
  - intros (y & Hy & E). apply oid_eqb_eq in E. subst. assumption.
  - intros H. exists x. split; [assumption|apply oid_eqb_refl].
Qed.

Lemma nodup_b_sound l : nodup_b l = true -> NoDup l.
Proof.
  induction l as [|x l IH]; cbn [nodup_b]; intros H; [constructor|].
  apply andb_prop in H. destruct H as [H1 H2]. constructor; [|apply IH; assumption].
  intros Hin. apply existsb_oid in Hin. rewrite Hin in H1. discriminate.
Qed.

Definition covered_b (q : queue) : bool :=
  forallb (fun o => existsb (oid_eqb (oid_of o)) (tickets q)) (qmap q).

Lemma covered_b_sound q : covered_b q = true -> Covered q.
Proof.
  unfold covered_b, Covered. rewrite forallb_forall. intros H o Ho.
  apply existsb_oid. apply H. assumption.
Qed.

Definition inv_b (l : level) : bool :=
  (cvis l =? sumv (resting l)) && (chid l =? sumh (resting l)) &&
  (ccnt l =? N.of_nat (length (resting l))) &&
  nodup_b (ids (resting l)) && covered_b (lq l) && fits_b l.

Lemma inv_b_sound l : inv_b l = true -> Inv l.
Proof.
  unfold inv_b. intros H.
  apply andb_prop in H. destruct H as [H H6]. apply andb_prop in H. destruct H as [H H5].
  apply andb_prop in H. destruct H as [H H4]. apply andb_prop in H. destruct H as [H H3].
  apply andb_prop in H. destruct H as [H1 H2].
  split; [|split].
  - unfold Agg. repeat split; lia.
  - split; [apply nodup_b_sound; assumption|apply covered_b_sound; assumption].
  - apply fits_b_sound; assumption.
Qed.

Fixpoint lt_sorted_b (l : list N) : bool :=
  match l with
  | [] => true
  | x :: l' => match l' with [] => true | y :: _ => (x <? y) && lt_sorted_b l' end
  end.

Lemma lt_sorted_b_sound l : lt_sorted_b l = true -> Sorted N.lt l.
Proof.
  induction l as [|x l IH]; intros H; [constructor|].
  cbn [lt_sorted_b] in H. destruct l as [|y l].
  - constructor; constructor.
  - apply andb_prop in H. destruct H as [H1 H2]. constructor; [apply IH; assumption|].
    constructor. lia.
Qed.

Definition clean_b (l : level) : bool :=
  nodup_b (tickets (lq l)) &&
  forallb (fun k => is_some (lookup k (resting l))) (tickets (lq l)) &&
  covered_b (lq l) && nodup_b (ids (resting l)) &&
  lt_sorted_b (map (ticket_ts l) (tickets (lq l))).

Lemma clean_b_sound l : clean_b l = true -> Clean l.
Proof.
  unfold clean_b. intros H.
  apply andb_prop in H. destruct H as [H H5]. apply andb_prop in H. destruct H as [H H4].
  apply andb_prop in H. destruct H as [H H3]. apply andb_prop in H. destruct H as [H1 H2].
  unfold Clean. split; [apply nodup_b_sound; assumption|]. split.
  - rewrite forallb_forall in H2. intros k Hk. specialize (H2 k Hk).
    destruct (lookup k (resting l)); [discriminate|discriminate].
  - split; [apply covered_b_sound; assumption|].
    split; [apply nodup_b_sound; assumption|apply lt_sorted_b_sound; assumption].
Qed.

(* a concrete listing is a listing: checked by computation *)
Fixpoint le_sorted_b (l : list N) : bool :=
  match l with
  | [] => true
  | x :: l' => match l' with [] => true | y :: _ => (x <=? y) && le_sorted_b l' end
  end.

Lemma le_sorted_b_sound (l : list order) : le_sorted_b (map ts_of l) = true -> ts_sorted l.
Proof.
  intros H. apply Sorted_ts_sorted. induction l as [|x l IH]; [constructor|].
  cbn [map le_sorted_b] in H. destruct l as [|y l].
  - constructor; constructor.
  - cbn [map] in H. apply andb_prop in H. destruct H as [H1 H2]. constructor; [apply IH; assumption|].
    constructor. unfold ts_le. lia.
Qed.

(* ================================================================== *)
(* C11.7  outside the cleanliness conditions the restored level trades *)
(*        differently: closed witnesses                                *)

(* the statement of C11 without cleanliness conditions, at its weakest: only the
   sequence of makers is compared, only trading operations continue, and the
   level is reachable inside the domain *)
Definition C11_unrestricted (mf : order -> N -> mres) : Prop :=
  forall l g listing ops s1 outs1 s2 outs2,
    reachable mf (l, g) -> listing_of l listing -> Forall trade_op ops ->
    run mf (l, g) ops s1 outs1 ->
    run mf (from_snapshot (mkSnap (price l) (cvis l) (chid l) (ccnt l) listing), g) ops s2 outs2 ->
    makers_of outs1 = makers_of outs2.

Definition k_T : oid := Uuid 99.
Definition k_std (i ts q : N) : order := Standard (mkCommon (Uuid i) 100 Sell ts Gtc) q.
Definition k_makers (l : level) (ops : list op) : option (list oid) :=
  option_map (fun p => makers_of (snd p)) (exec match_against 5 (l, 0) ops).
Definition restore (l : level) (listing : list order) : level :=
  from_snapshot (mkSnap (price l) (cvis l) (chid l) (ccnt l) listing).

(* K3: the snapshot lists by timestamp, the queue serves by arrival.
   A (ts 5) arrives before B (ts 3). *)
Definition k3_A := k_std 1 5 10.
Definition k3_B := k_std 2 3 10.
Definition k3_hist : list op := [OAdd k3_A; OAdd k3_B].
Definition k3_l : level := add_order (add_order (new_level 100) k3_A) k3_B.
Definition k3_copy : level := restore k3_l [k3_B; k3_A].
Definition k3_cont : list op := [OMatch 1 k_T].

Lemma K3_witness :
  exec match_against 5 (new_level 100, 0) k3_hist = Some ((k3_l, 0), [OutAdd k3_A; OutAdd k3_B]) /\
  to_vec (lq k3_l) = [k3_B; k3_A] /\ k3_copy = from_snapshot (snapshot_of k3_l) /\
  resting k3_l = [k3_A; k3_B] /\
  tickets (lq k3_l) = [Uuid 1; Uuid 2] /\ tickets (lq k3_copy) = [Uuid 2; Uuid 1] /\
  k_makers k3_l k3_cont = Some [Uuid 1] /\
  k_makers k3_copy k3_cont = Some [Uuid 2].
Proof. vm_compute. repeat split; reflexivity. Qed.

(* K2': a cancelled order leaves a stale ticket in the original; a later add of the
   same id inherits its position there, but not in the copy. *)
Definition k2_A := k_std 1 1 10.
Definition k2_B := k_std 2 2 10.
Definition k2_A' := k_std 1 3 10.
Definition k2_hist : list op := [OAdd k2_A; OAdd k2_B; OUpdate (Cancel (Uuid 1))].
Definition k2_l : level :=
  fst (update_order (add_order (add_order (new_level 100) k2_A) k2_B) (Cancel (Uuid 1))).
Definition k2_copy : level := restore k2_l [k2_B].
Definition k2_cont : list op := [OAdd k2_A'; OMatch 1 k_T].

Lemma K2prime_witness :
  exec match_against 5 (new_level 100, 0) k2_hist
    = Some ((k2_l, 0), [OutAdd k2_A; OutAdd k2_B; OutUpdate (UOk (Some k2_A))]) /\
  to_vec (lq k2_l) = [k2_B] /\ k2_copy = from_snapshot (snapshot_of k2_l) /\
  resting k2_l = [k2_B] /\
  tickets (lq k2_l) = [Uuid 1; Uuid 2] /\ tickets (lq k2_copy) = [Uuid 2] /\
  k_makers k2_l k2_cont = Some [Uuid 1] /\
  k_makers k2_copy k2_cont = Some [Uuid 2].
Proof. vm_compute. repeat split; reflexivity. Qed.

(* K2 (two outstanding tickets of one live id): cancel and re-add A, then B.  All
   tickets are live and timestamps increase along them, but A holds two tickets; after
   a partial fill A is served again before B in the original, after B in the copy. *)
Definition kd_hist : list op :=
  [OAdd k2_A; OUpdate (Cancel (Uuid 1)); OAdd k2_A; OAdd k2_B].
Definition kd_l : level :=
  add_order (add_order (fst (update_order (add_order (new_level 100) k2_A) (Cancel (Uuid 1)))) k2_A) k2_B.
Definition kd_copy : level := restore kd_l [k2_A; k2_B].
Definition kd_cont : list op := [OMatch 1 k_T; OMatch 1 k_T].

Lemma K2dup_witness :
  exec match_against 5 (new_level 100, 0) kd_hist
    = Some ((kd_l, 0), [OutAdd k2_A; OutUpdate (UOk (Some k2_A)); OutAdd k2_A; OutAdd k2_B]) /\
  to_vec (lq kd_l) = [k2_A; k2_B] /\ kd_copy = from_snapshot (snapshot_of kd_l) /\
  resting kd_l = [k2_A; k2_B] /\
  tickets (lq kd_l) = [Uuid 1; Uuid 1; Uuid 2] /\ tickets (lq kd_copy) = [Uuid 1; Uuid 2] /\
  k_makers kd_l kd_cont = Some [Uuid 1; Uuid 1] /\
  k_makers kd_copy kd_cont = Some [Uuid 1; Uuid 2].
Proof. vm_compute. repeat split; reflexivity. Qed.

(* from a witness of this shape to the refutation of the unrestricted statement *)
Lemma refute_from_witness l0 hist outs0 l listing cont m1 m2 :
  exec match_against 5 (l0, 0) hist = Some ((l, 0), outs0) ->
  l0 = new_level (price l0) -> (price l0 <? W) = true ->
  Permutation listing (resting l) -> le_sorted_b (map ts_of listing) = true ->
  Forall trade_op cont ->
  k_makers l cont = Some m1 -> k_makers (restore l listing) cont = Some m2 -> m1 <> m2 ->
  ~ C11_unrestricted match_against.
Proof.
  intros Hh Hl0 Hp HP Hs HF M1 M2 Hne H. unfold k_makers in M1, M2.
  destruct (exec match_against 5 (l, 0) cont) as [[s1 o1]|] eqn:E1; [|discriminate].
  destruct (exec match_against 5 (restore l listing, 0) cont) as [[s2 o2]|] eqn:E2; [|discriminate].
  cbn [option_map snd] in M1, M2. inversion M1; inversion M2; subst m1 m2.
  apply Hne. apply (H l 0 listing cont s1 o1 s2 o2).
  - rewrite Hl0 in Hh. eapply exec_reachable; eassumption.
  - split; [assumption|apply le_sorted_b_sound; assumption].
  - assumption.
  - eapply exec_run; eassumption.
  - eapply exec_run; eassumption.
Qed.

Lemma C11_unrestricted_refuted_K3 : ~ C11_unrestricted match_against.
Proof.
  destruct K3_witness as (Hh & _ & _ & Hr & _ & _ & M1 & M2).
  apply (refute_from_witness _ _ _ k3_l [k3_B; k3_A] k3_cont [Uuid 1] [Uuid 2] Hh eq_refl eq_refl);
    [rewrite Hr; apply perm_swap|reflexivity|repeat constructor|exact M1|exact M2|discriminate].
Qed.

Lemma C11_unrestricted_refuted_K2prime : ~ C11_unrestricted match_against.
Proof.
  destruct K2prime_witness as (Hh & _ & _ & Hr & _ & _ & M1 & M2).
  apply (refute_from_witness _ _ _ k2_l [k2_B] k2_cont [Uuid 1] [Uuid 2] Hh eq_refl eq_refl);
    [rewrite Hr; apply Permutation_refl|reflexivity|repeat constructor|exact M1|exact M2|discriminate].
Qed.

Lemma C11_unrestricted_refuted_K2dup : ~ C11_unrestricted match_against.
Proof.
  destruct K2dup_witness as (Hh & _ & _ & Hr & _ & _ & M1 & M2).
  apply (refute_from_witness _ _ _ kd_l [k2_A; k2_B] kd_cont [Uuid 1; Uuid 1] [Uuid 1; Uuid 2] Hh eq_refl eq_refl);
    [rewrite Hr; apply Permutation_refl|reflexivity|repeat constructor|exact M1|exact M2|discriminate].
Qed.
