(* UpdateProofs.v — C07: cancel, move and amend do exactly what they report;
   queue position; a cancelled order never trades; read-only calls are pure. *)
From PL Require Import Model.Level Spec.Hist Proofs.OrderProofs Proofs.UpdBase.
From Coq Require Import Lia ZifyBool ZifyN.
Local Open Scope N_scope.

(* ================================================================== *)
(* 0. Which update kinds remove, which amend                           *)

(* [takes_out l k u]: [u] is a cancel of [k] or a move of [k] to a price
   different from the level's. *)
Inductive takes_out (l : level) (k : oid) : update -> Prop :=
| TO_cancel : takes_out l k (Cancel k)
| TO_price np : np <> price l -> takes_out l k (UpdatePrice k np)
| TO_price_qty np nq : np <> price l -> takes_out l k (UpdatePriceAndQuantity k np nq)
| TO_replace np q s : np <> price l -> takes_out l k (Replace k np q s).

(* [amends l k nq u]: [u] is a quantity amendment of [k] to [nq] at the level's price. *)
Inductive amends (l : level) (k : oid) (nq : N) : update -> Prop :=
| AM_qty : amends l k nq (UpdateQuantity k nq)
| AM_price_qty : amends l k nq (UpdatePriceAndQuantity k (price l) nq)
| AM_replace s : amends l k nq (Replace k (price l) nq s).

Lemma neq_eqb_false a b : a <> b -> (a =? b) = false.
Proof. intros H. destruct (N.eqb_spec a b); [contradiction|reflexivity]. Qed.

Lemma takes_out_dispatch l k u : takes_out l k u -> update_order l u = take_out l k.
Proof.
  intros H. destruct H as [|np Hne|np nq Hne|np q s Hne]; cbn [update_order];
    try rewrite (neq_eqb_false _ _ Hne); reflexivity.
Qed.

(* the two kinds that dispatch to the quantity amendment at the level's price *)
Lemma price_qty_same_price l k nq :
  update_order l (UpdatePriceAndQuantity k (price l) nq) = update_order l (UpdateQuantity k nq).
Proof. cbn [update_order]. rewrite N.eqb_refl. reflexivity. Qed.

Lemma replace_same_price l k q s :
  update_order l (Replace k (price l) q s) = update_order l (UpdateQuantity k q).
Proof. cbn [update_order]. rewrite N.eqb_refl. reflexivity. Qed.

Lemma amends_dispatch l k nq u : amends l k nq u -> update_order l u = amend l k nq.
Proof.
  intros H. destruct H as [| |s]; cbn [update_order]; rewrite ?N.eqb_refl; reflexivity.
Qed.

(* ================================================================== *)
(* 1. Cancel / price move                                              *)

Lemma take_out_present l k o :
  lookup k (resting l) = Some o ->
  take_out l k =
  (mkLevel (price l) (wsub (cvis l) (vis o)) (wsub (chid l) (hid o)) (wsub (ccnt l) 1)
           (mkQueue (remove_key k (resting l)) (tickets (lq l))) (record_removed (st l)),
   UOk (Some o)).
Proof. intros H. unfold take_out, qremove. unfold resting in *. rewrite H. reflexivity. Qed.

Lemma take_out_absent l k : lookup k (resting l) = None -> take_out l k = (l, UOk None).
Proof. intros H. unfold take_out, qremove. unfold resting in *. rewrite H. reflexivity. Qed.

(* Present id: the order is returned as it rests, it and only it leaves the map,
   the tickets stay, the counters drop by exactly its quantities (machine
   arithmetic), the price stays, [s_removed] ticks and no other statistic moves. *)
Theorem remove_present l k u o l' r :
  takes_out l k u -> lookup k (resting l) = Some o -> update_order l u = (l', r) ->
  r = UOk (Some o) /\
  lookup k (resting l') = None /\
  (forall k', k' <> k -> lookup k' (resting l') = lookup k' (resting l)) /\
  resting l' = remove_key k (resting l) /\
  tickets (lq l') = tickets (lq l) /\
  cvis l' = wsub (cvis l) (vis o) /\
  chid l' = wsub (chid l) (hid o) /\
  ccnt l' = wsub (ccnt l) 1 /\
  price l' = price l /\
  s_removed (st l') = wadd (s_removed (st l)) 1 /\
  s_added (st l') = s_added (st l) /\
  s_executed (st l') = s_executed (st l) /\
  s_qty (st l') = s_qty (st l) /\
  s_value (st l') = s_value (st l).
Proof.
  intros Hu Hl H. rewrite (takes_out_dispatch _ _ _ Hu), (take_out_present _ _ _ Hl) in H.
  inversion H; subst l' r; clear H. unfold resting. cbn.
  split; [reflexivity|]. split; [apply lookup_remove_same|].
  split; [intros k' Hne; apply lookup_remove_other; exact Hne|].
  repeat split; reflexivity.
Qed.

(* The same under the aggregate invariant, as plain arithmetic. *)
Theorem remove_present_exact l k u o l' r :
  NoDup (ids (resting l)) -> Agg l -> Fits l ->
  takes_out l k u -> lookup k (resting l) = Some o -> update_order l u = (l', r) ->
  vis o <= cvis l /\ hid o <= chid l /\ 1 <= ccnt l /\
  cvis l' = cvis l - vis o /\ chid l' = chid l - hid o /\ ccnt l' = ccnt l - 1 /\
  Agg l' /\ Fits l' /\ NoDup (ids (resting l')).
Proof.
  intros Hnd (Hv & Hh & Hc) (Hf1 & Hf2) Hu Hl H.
  destruct (remove_present _ _ _ _ _ _ Hu Hl H)
    as (_ & _ & _ & Hm & _ & Hcv & Hch & Hcc & _).
  destruct (remove_key_sums _ _ _ Hnd Hl) as (Sv & Sh & Sl).
  unfold Agg, Fits. rewrite Hm, Hcv, Hch, Hcc, Hv, Hh, Hc.
  rewrite !wsub_exact by lia.
  repeat split; try lia. apply NoDup_remove_key. exact Hnd.
Qed.

(* Absent id: not-found, nothing changes. *)
Theorem remove_absent l k u l' r :
  takes_out l k u -> lookup k (resting l) = None -> update_order l u = (l', r) ->
  r = UOk None /\ l' = l.
Proof.
  intros Hu Hl H. rewrite (takes_out_dispatch _ _ _ Hu), (take_out_absent _ _ Hl) in H.
  inversion H. split; reflexivity.
Qed.

(* ================================================================== *)
(* 2. A price update to the level's own price is rejected              *)

Theorem update_price_same_rejected l k : update_order l (UpdatePrice k (price l)) = (l, UErr).
Proof. cbn [update_order]. rewrite N.eqb_refl. reflexivity. Qed.

(* ================================================================== *)
(* 3. Same-price amendment                                             *)

Lemma wrq_same_identity o nq : same_identity o (with_reduced_quantity o nq).
Proof. destruct o; cbn; auto. Qed.

Lemma wrq_hid o nq : hid (with_reduced_quantity o nq) = hid o.
Proof. destruct o; reflexivity. Qed.

Lemma wrq_oid o nq : oid_of (with_reduced_quantity o nq) = oid_of o.
Proof. symmetry. apply same_identity_oid, wrq_same_identity. Qed.

(* new displayed quantity for Standard / PostOnly / Iceberg; the other four
   variants are returned unchanged *)
Definition wrq_effect (o n : order) (nq : N) : Prop :=
  match o with
  | Standard _ _ | PostOnly _ _ | Iceberg _ _ _ => vis n = nq
  | TrailingStop _ _ _ _ | Pegged _ _ _ _ | MarketToLimit _ _ | Reserve _ _ _ _ _ _ => n = o
  end.

Lemma wrq_effect_holds o nq : wrq_effect o (with_reduced_quantity o nq) nq.
Proof. destruct o; reflexivity. Qed.

Lemma amend_present l k nq o :
  lookup k (resting l) = Some o ->
  amend l k nq =
  (let n := with_reduced_quantity o nq in
   (mkLevel (price l) (delta (cvis l) (vis o) (vis n)) (delta (chid l) (hid o) (hid n)) (ccnt l)
            (push (mkQueue (remove_key k (resting l)) (tickets (lq l))) n) (st l),
    UOk (Some n))).
Proof. intros H. unfold amend, qfind, qremove. unfold resting in *. rewrite H. reflexivity. Qed.

Lemma amend_absent l k nq : lookup k (resting l) = None -> amend l k nq = (l, UOk None).
Proof. intros H. unfold amend, qfind. unfold resting in *. rewrite H. reflexivity. Qed.

Theorem amend_present_exact l k nq u o l' r :
  amends l k nq u -> lookup k (resting l) = Some o -> update_order l u = (l', r) ->
  let n := with_reduced_quantity o nq in
  r = UOk (Some n) /\
  lookup k (resting l') = Some n /\
  same_identity o n /\ hid n = hid o /\ wrq_effect o n nq /\
  (forall k', k' <> k -> lookup k' (resting l') = lookup k' (resting l)) /\
  resting l' = remove_key k (resting l) ++ [n] /\
  tickets (lq l') = tickets (lq l) ++ [k] /\
  cvis l' = delta (cvis l) (vis o) (vis n) /\
  chid l' = delta (chid l) (hid o) (hid n) /\ chid l' = chid l /\
  ccnt l' = ccnt l /\
  price l' = price l /\
  st l' = st l.
Proof.
  intros Hu Hl H n. rewrite (amends_dispatch _ _ _ _ Hu), (amend_present _ _ _ _ Hl) in H.
  fold n in H. cbv zeta in H. inversion H; subst l' r; clear H.
  pose proof (lookup_Some_oid _ _ _ Hl) as Hk.
  assert (Hn : oid_of n = k) by (unfold n; rewrite wrq_oid; exact Hk).
  unfold resting. cbn [lq push qmap tickets cvis chid ccnt price st].
  split; [reflexivity|].
  split; [rewrite <- Hn; apply lookup_upsert_same|].
  split; [apply wrq_same_identity|]. split; [apply wrq_hid|]. split; [apply wrq_effect_holds|].
  split.
  { intros k' Hne. rewrite lookup_upsert_other by congruence. apply lookup_remove_other. exact Hne. }
  split.
  { unfold upsert. rewrite Hn, remove_key_idem. reflexivity. }
  split; [rewrite Hn; reflexivity|].
  split; [reflexivity|]. split; [reflexivity|].
  split; [unfold n; rewrite wrq_hid; apply delta_same|].
  repeat split; reflexivity.
Qed.

(* Under the aggregate invariant the counters move by exactly new - old, the
   aggregates describe the new map and the number of orders is unchanged.
   [Fits] is required of the NEW state only. *)
Theorem amend_present_agg l k nq u o l' r :
  NoDup (ids (resting l)) -> Agg l ->
  amends l k nq u -> lookup k (resting l) = Some o -> update_order l u = (l', r) ->
  Fits l' ->
  let n := with_reduced_quantity o nq in
  vis o <= cvis l /\
  cvis l' + vis o = cvis l + vis n /\ chid l' = chid l /\ ccnt l' = ccnt l /\
  length (resting l') = length (resting l) /\
  Agg l' /\ NoDup (ids (resting l')).
Proof.
  intros Hnd (Hv & Hh & Hc) Hu Hl H (Hf1 & Hf2) n.
  destruct (amend_present_exact _ _ _ _ _ _ _ Hu Hl H)
    as (_ & _ & _ & Hhn & _ & _ & Hm & _ & Hcv & _ & Hch & Hcc & _).
  fold n in Hhn, Hm, Hcv.
  destruct (remove_key_sums _ _ _ Hnd Hl) as (Sv & Sh & Sl).
  assert (Hsv : sumv (resting l') = sumv (remove_key k (resting l)) + vis n).
  { rewrite Hm, sumv_app. unfold sumv at 2. cbn [fold_right]. lia. }
  assert (Hsh : sumh (resting l') = sumh (remove_key k (resting l)) + hid n).
  { rewrite Hm, sumh_app. unfold sumh at 2. cbn [fold_right]. lia. }
  assert (Hlen : length (resting l') = length (resting l)).
  { rewrite Hm, app_length. cbn [length]. lia. }
  assert (Hcv' : cvis l' = cvis l - vis o + vis n).
  { rewrite Hcv. apply delta_exact; lia. }
  unfold Agg. rewrite Hch, Hcc, Hlen, Hsh, Hsv, Hcv', Hhn.
  repeat split; try lia.
  rewrite Hm, ids_app. cbn [ids map]. apply NoDup_snoc.
  - apply NoDup_remove_key. exact Hnd.
  - intros Hi. apply In_ids_remove_key in Hi. destruct Hi as [_ Hne]. apply Hne.
    unfold n. rewrite wrq_oid. apply (lookup_Some_oid _ _ _ Hl).
Qed.

Theorem amend_absent_exact l k nq u l' r :
  amends l k nq u -> lookup k (resting l) = None -> update_order l u = (l', r) ->
  r = UOk None /\ l' = l.
Proof.
  intros Hu Hl H. rewrite (amends_dispatch _ _ _ _ Hu), (amend_absent _ _ _ Hl) in H.
  inversion H. split; reflexivity.
Qed.

(* ================================================================== *)
(* 4. Queue position                                                   *)

Lemma filter_neq_notin k (s : list oid) :
  ~ In k s -> filter (fun x => negb (oid_eqb x k)) s = s.
Proof.
  induction s as [|a s IH]; intros Hn; cbn [filter]; [reflexivity|].
  replace (oid_eqb a k) with false.
  - cbn [negb]. f_equal. apply IH. intros H. apply Hn. right. exact H.
  - symmetry. apply oid_eqb_neq. intros E. apply Hn. left. exact E.
Qed.

(* Cancel / move: [k] disappears from the pop order; the others keep their
   relative order (whether or not [k] was present). *)
Theorem remove_abs l k u l' r :
  takes_out l k u -> update_order l u = (l', r) ->
  abs (lq l') = filter (fun x => negb (oid_eqb x k)) (abs (lq l)).
Proof.
  intros Hu H. destruct (lookup k (resting l)) as [o|] eqn:Hl.
  - destruct (remove_present _ _ _ _ _ _ Hu Hl H) as (_ & _ & _ & Hm & Ht & _).
    destruct l' as [p' cv' ch' cc' [m' t'] s']. unfold resting in *. cbn [lq qmap tickets] in *.
    subst m' t'. destruct (lq l) as [m t]. cbn [qmap tickets]. apply abs_remove_key.
  - destruct (remove_absent _ _ _ _ _ Hu Hl H) as (_ & ->).
    symmetry. apply filter_neq_notin. intros Hi. apply In_abs in Hi. destruct Hi as [_ Hi].
    apply lookup_None_iff in Hl. contradiction.
Qed.

Corollary remove_abs_not_in l k u l' r :
  takes_out l k u -> update_order l u = (l', r) -> ~ In k (abs (lq l')).
Proof.
  intros Hu H. rewrite (remove_abs _ _ _ _ _ Hu H). intros Hi. apply filter_In in Hi.
  destruct Hi as [_ Hi]. rewrite oid_eqb_refl in Hi. discriminate.
Qed.

Lemma live_amended k n m x :
  oid_of n = k -> live m k = true -> live (upsert n (remove_key k m)) x = live m x.
Proof.
  intros Hn Hk. unfold live in *. destruct (oid_eq_dec x k) as [E|E].
  - subst x. rewrite <- Hn at 1. rewrite lookup_upsert_same. cbn [is_some]. symmetry. exact Hk.
  - rewrite lookup_upsert_other by congruence. rewrite lookup_remove_other by exact E. reflexivity.
Qed.

(* A same-price amendment of a live order whose ticket is still outstanding
   keeps its place: the pop order is unchanged. *)
Theorem amend_keeps_place l k nq u o l' r :
  amends l k nq u -> lookup k (resting l) = Some o -> In k (tickets (lq l)) ->
  update_order l u = (l', r) ->
  abs (lq l') = abs (lq l).
Proof.
  intros Hu Hl Hin H. rewrite (amends_dispatch _ _ _ _ Hu), (amend_present _ _ _ _ Hl) in H.
  cbv zeta in H. inversion H; subst l' r; clear H.
  pose proof (lookup_Some_oid _ _ _ Hl) as Hk.
  assert (Hlive : live (resting l) k = true) by (unfold live; rewrite Hl; reflexivity).
  unfold abs, resting in *. cbn [lq push qmap tickets].
  rewrite wrq_oid, Hk.
  rewrite (filter_ext _ _ (fun x => live_amended k _ (qmap (lq l)) x (eq_trans (wrq_oid o nq) Hk) Hlive)).
  rewrite filter_app. cbn [filter]. rewrite Hlive.
  apply dedup_snoc_in. apply filter_In. split; assumption.
Qed.

Corollary amend_keeps_place_wf l k nq u o l' r :
  WfQueue (lq l) ->
  amends l k nq u -> lookup k (resting l) = Some o -> update_order l u = (l', r) ->
  abs (lq l') = abs (lq l).
Proof.
  intros [_ Hc] Hu Hl H. apply (amend_keeps_place l k nq u o l' r Hu Hl); [|exact H].
  pose proof (lookup_Some_In _ _ _ Hl) as Hi. apply Hc in Hi.
  rewrite (lookup_Some_oid _ _ _ Hl) in Hi. exact Hi.
Qed.

(* (for completeness) without an outstanding ticket the amended order would go last *)
Lemma amend_without_ticket_goes_last l k nq u o l' r :
  amends l k nq u -> lookup k (resting l) = Some o -> ~ In k (tickets (lq l)) ->
  update_order l u = (l', r) ->
  abs (lq l') = abs (lq l) ++ [k].
Proof.
  intros Hu Hl Hin H. rewrite (amends_dispatch _ _ _ _ Hu), (amend_present _ _ _ _ Hl) in H.
  cbv zeta in H. inversion H; subst l' r; clear H.
  pose proof (lookup_Some_oid _ _ _ Hl) as Hk.
  assert (Hlive : live (resting l) k = true) by (unfold live; rewrite Hl; reflexivity).
  unfold abs, resting in *. cbn [lq push qmap tickets].
  rewrite wrq_oid, Hk.
  rewrite (filter_ext _ _ (fun x => live_amended k _ (qmap (lq l)) x (eq_trans (wrq_oid o nq) Hk) Hlive)).
  rewrite filter_app. cbn [filter]. rewrite Hlive.
  apply dedup_snoc_notin. intros Hi. apply filter_In in Hi. apply Hin, Hi.
Qed.

(* ================================================================== *)
(* 5. The matching loop: generic invariant rule                        *)

Section Loop.
Variable mf : order -> N -> mres.
Variable taker : oid.
Variable Inv : mstate -> Prop.
Hypothesis H_empty : forall s q', pop (lq (ms_lvl s)) = (None, q') -> Inv s ->
  Inv (mkMstate (set_queue (ms_lvl s) q') (ms_gen s) (ms_res s) (ms_rem s) (ms_aside s)).
Hypothesis H_aside : forall s o q', pop (lq (ms_lvl s)) = (Some o, q') -> Inv s ->
  Inv (mkMstate (set_queue (ms_lvl s) q') (ms_gen s) (ms_res s) (ms_rem s) (ms_aside s ++ [o])).
Hypothesis H_visit : forall s o q' l' gen' res' rem',
  pop (lq (ms_lvl s)) = (Some o, q') -> Inv s ->
  visit mf (set_queue (ms_lvl s) q') (ms_gen s) (ms_res s) taker (ms_rem s) o = (l', gen', res', rem') ->
  Inv (mkMstate l' gen' res' rem' (ms_aside s)).

Lemma match_loop_inv : forall fuel s s',
  match_loop mf fuel taker s = Some s' -> Inv s -> Inv s'.
Proof.
  induction fuel as [|f IH]; intros s s' H HI; cbn [match_loop] in H.
  - destruct (ms_rem s =? 0); [|discriminate]. inversion H; subst. exact HI.
  - destruct (ms_rem s =? 0); [inversion H; subst; exact HI|].
    destruct (pop (lq (ms_lvl s))) as [[o|] q'] eqn:Ep.
    + destruct ((m_consumed (mf o (ms_rem s)) =? 0) && (m_hidden_reduced (mf o (ms_rem s)) =? 0)
                && is_some (m_updated (mf o (ms_rem s)))).
      * apply (IH _ _ H). apply H_aside; assumption.
      * destruct (visit mf (set_queue (ms_lvl s) q') (ms_gen s) (ms_res s) taker (ms_rem s) o)
          as [[[l' gen'] res'] rem'] eqn:Ev.
        apply (IH _ _ H). eapply H_visit; eassumption.
    + inversion H; subst. apply H_empty; assumption.
Qed.
End Loop.

(* what one visit does to the queue and to the transaction list *)
Lemma visit_shape mf l gen res taker rem o l' gen' res' rem' :
  visit mf l gen res taker rem o = (l', gen', res', rem') ->
  (lq l' = lq l \/ exists u, m_updated (mf o rem) = Some u /\ lq l' = push (lq l) u) /\
  (forall t, In t (r_txs res') -> In t (r_txs res) \/ tx_maker t = oid_of o).
Proof.
  unfold visit. cbv zeta.
  destruct (0 <? m_consumed (mf o rem));
    destruct (m_updated (mf o rem)) as [u|] eqn:Eu;
    try destruct (0 <? m_hidden_reduced (mf o rem));
    cbv beta iota; intros H; inversion H; subst; clear H; cbn [lq];
    (split; [first [left; reflexivity | right; exists u; split; reflexivity]|]);
    cbn [is_some add_filled add_transaction r_txs]; intros t Ht;
    try (left; exact Ht);
    (apply in_app_iff in Ht; destruct Ht as [Ht|[Ht|[]]]; [left; exact Ht|right; subst t; reflexivity]).
Qed.

Lemma fold_push_lq os : forall l, lq (fold_left add_order os l) = fold_left push os (lq l).
Proof. induction os as [|o os IH]; intros l; cbn [fold_left]; [reflexivity|]. rewrite IH. reflexivity. Qed.

(* ---- any queue predicate kept by push / pop / qremove is kept by every step ---- *)
Section QueueInv.
Variable P : queue -> Prop.
Hypothesis P_empty : P empty_queue.
Hypothesis P_push : forall q o, P q -> P (push q o).
Hypothesis P_pop : forall q r q', P q -> pop q = (r, q') -> P q'.
Hypothesis P_qremove : forall q k r q', P q -> qremove q k = (r, q') -> P q'.
Variable mf : order -> N -> mres.

Lemma fold_push_P os : forall q, P q -> P (fold_left push os q).
Proof. induction os as [|o os IH]; intros q H; cbn [fold_left]; [exact H|]. apply IH, P_push, H. Qed.

Lemma match_order_P fuel l g qty taker l' g' r :
  P (lq l) -> match_order mf fuel l g qty taker = Some (l', g', r) -> P (lq l').
Proof.
  intros HP H. unfold match_order in H.
  destruct (match_loop mf fuel taker (mkMstate l g (result_new taker qty) qty [])) as [s|] eqn:E;
    [|discriminate].
  assert (HI : P (lq (ms_lvl s))).
  { apply (match_loop_inv mf taker (fun s => P (lq (ms_lvl s)))) in E; [exact E| | | |exact HP].
    - intros s0 q' Hp HI. cbn [ms_lvl set_queue lq]. eapply P_pop; eassumption.
    - intros s0 o q' Hp HI. cbn [ms_lvl set_queue lq]. eapply P_pop; eassumption.
    - intros s0 o q' l1 g1 r1 rem1 Hp HI Hv. cbn [ms_lvl].
      apply visit_shape in Hv. destruct Hv as [[Hq|(u & _ & Hq)] _]; rewrite Hq; cbn [set_queue lq].
      + eapply P_pop; eassumption.
      + apply P_push. eapply P_pop; eassumption. }
  unfold finish in H. inversion H; subst. cbn [set_queue lq]. apply fold_push_P. exact HI.
Qed.

Lemma update_order_P l u l' r : P (lq l) -> update_order l u = (l', r) -> P (lq l').
Proof.
  intros HP H.
  assert (Ht : forall k, take_out l k = (l', r) -> P (lq l')).
  { intros k Hk. unfold take_out in Hk. destruct (qremove (lq l) k) as [[o|] q'] eqn:E;
      inversion Hk; subst; [|exact HP]. cbn [lq]. eapply P_qremove; eassumption. }
  assert (Ha : forall k nq, amend l k nq = (l', r) -> P (lq l')).
  { intros k nq Hk. unfold amend in Hk. destruct (qfind (lq l) k) as [o0|]; [|inversion Hk; subst; exact HP].
    destruct (qremove (lq l) k) as [[o|] q'] eqn:E; inversion Hk; subst; [|exact HP].
    cbn [lq]. apply P_push. eapply P_qremove; eassumption. }
  destruct u as [k np|k nq|k np nq|k|k p q s]; cbn [update_order] in H.
  - destruct (np =? price l); [inversion H; subst; exact HP|eauto].
  - eauto.
  - destruct (np =? price l); eauto.
  - eauto.
  - destruct (p =? price l); eauto.
Qed.

Lemma step_P l g o l' g' x : P (lq l) -> step mf (l, g) o (l', g') x -> P (lq l').
Proof.
  intros HP H. inversion H; subst.
  - cbn [add_order lq]. apply P_push, HP.
  - eapply match_order_P; eassumption.
  - eapply update_order_P; eassumption.
  - cbn [from_snapshot lq]. unfold from_vec. apply fold_push_P, P_empty.
  - unfold from_data. rewrite fold_push_lq. apply fold_push_P, P_empty.
  - exact HP.
Qed.

Lemma steps_P s ops s' outs : steps mf s ops s' outs -> P (lq (fst s)) -> P (lq (fst s')).
Proof.
  induction 1 as [s|s o s1 x ops s' outs Hok Hs Hf Hss IH]; intros HP; [exact HP|].
  apply IH. destruct s as [l g], s1 as [l1 g1]. eapply step_P; eassumption.
Qed.

Lemma reachable_P s : reachable mf s -> P (lq (fst s)).
Proof.
  intros (p & g0 & ops & outs & _ & H). apply (steps_P _ _ _ _ H). exact P_empty.
Qed.
End QueueInv.

(* Unique ids and ticket coverage hold in every reachable state (for any [mf]):
   the hypotheses of the theorems above can always be discharged. *)
Theorem reachable_NoDup mf s : reachable mf s -> NoDup (ids (resting (fst s))).
Proof.
  apply (reachable_P (fun q => NoDup (ids (qmap q)))).
  - constructor.
  - intros q o. apply push_NoDup.
  - intros q r q'. apply pop_NoDup.
  - intros q k r q'. apply qremove_NoDup.
Qed.

Theorem reachable_WfQueue mf s : reachable mf s -> WfQueue (lq (fst s)).
Proof.
  apply (reachable_P WfQueue).
  - exact WfQueue_empty.
  - intros q o [H1 H2]. split; [apply push_NoDup, H1|apply push_Covered, H2].
  - intros q r q' [H1 H2] H. split; [eapply pop_NoDup|eapply pop_Covered]; eassumption.
  - intros q k r q' [H1 H2] H. split; [eapply qremove_NoDup|eapply qremove_Covered]; eassumption.
Qed.

Theorem steps_NoDup mf s ops s' outs :
  steps mf s ops s' outs -> NoDup (ids (resting (fst s))) -> NoDup (ids (resting (fst s'))).
Proof.
  apply (steps_P (fun q => NoDup (ids (qmap q)))).
  - constructor.
  - intros q o. apply push_NoDup.
  - intros q r q'. apply pop_NoDup.
  - intros q k r q'. apply qremove_NoDup.
Qed.

(* ================================================================== *)
(* 6. Makers of transactions are resting ids; no step invents an id    *)

Lemma In_ids_fold_push x os : forall q,
  In x (ids (qmap (fold_left push os q))) -> In x (ids os) \/ In x (ids (qmap q)).
Proof.
  induction os as [|o os IH]; intros q H; cbn [fold_left] in H; [right; exact H|].
  apply IH in H. destruct H as [H|H]; [left; right; exact H|].
  cbn [push qmap] in H. apply In_ids_upsert in H. destruct H as [H|H].
  - left. left. symmetry. exact H.
  - right. exact H.
Qed.

Section MatchIds.
Variable mf : order -> N -> mres.
Hypothesis Hid : I_id mf.

Lemma match_order_ids_gen (Q : oid -> Prop) fuel l g qty taker l' g' r :
  match_order mf fuel l g qty taker = Some (l', g', r) ->
  (forall k, In k (ids (resting l)) -> Q k) ->
  (forall k, In k (ids (resting l')) -> Q k) /\
  (forall t, In t (r_txs r) -> Q (tx_maker t)).
Proof.
  intros H HQ. unfold match_order in H.
  destruct (match_loop mf fuel taker (mkMstate l g (result_new taker qty) qty [])) as [s|] eqn:E;
    [|discriminate].
  set (Inv := fun s : mstate =>
    (forall k, In k (ids (resting (ms_lvl s))) -> Q k) /\
    (forall o, In o (ms_aside s) -> Q (oid_of o)) /\
    (forall t, In t (r_txs (ms_res s)) -> Q (tx_maker t))).
  assert (HI : Inv s).
  { apply (match_loop_inv mf taker Inv) in E; [exact E| | | |].
    - intros s0 q' Hp (I1 & I2 & I3). apply pop_None in Hp. destruct Hp as (-> & _).
      unfold Inv, resting. cbn [ms_lvl ms_aside ms_res set_queue lq qmap]. auto.
    - intros s0 o q' Hp (I1 & I2 & I3). apply pop_Some in Hp. destruct Hp as (Hl & Hm & _).
      unfold Inv, resting in *. cbn [ms_lvl ms_aside ms_res set_queue lq]. split; [|split].
      + intros k Hk. rewrite Hm in Hk. apply In_ids_remove_key in Hk. apply I1, Hk.
      + intros x Hx. apply in_app_iff in Hx. destruct Hx as [Hx|[Hx|[]]]; [apply I2, Hx|].
        subst x. apply I1. apply lookup_Some_iff. eauto.
      + exact I3.
    - intros s0 o q' l1 g1 r1 rem1 Hp (I1 & I2 & I3) Hv.
      apply pop_Some in Hp. destruct Hp as (Hl & Hm & _).
      assert (Qo : Q (oid_of o)) by (apply I1, lookup_Some_iff; eauto).
      apply visit_shape in Hv. destruct Hv as [Hq Htx].
      unfold Inv, resting in *. cbn [ms_lvl ms_aside ms_res]. split; [|split].
      + intros k Hk. destruct Hq as [Hq|(u & Hu & Hq)]; rewrite Hq in Hk; cbn [set_queue lq] in Hk.
        * rewrite Hm in Hk. apply In_ids_remove_key in Hk. apply I1, Hk.
        * cbn [push qmap] in Hk. apply In_ids_upsert in Hk. destruct Hk as [Hk|Hk].
          -- subst k. rewrite <- (same_identity_oid _ _ (Hid _ _ _ Hu)). exact Qo.
          -- rewrite Hm in Hk. apply In_ids_remove_key in Hk. apply I1, Hk.
      + exact I2.
      + intros t Ht. apply Htx in Ht. destruct Ht as [Ht|Ht]; [apply I3, Ht|]. rewrite Ht. exact Qo.
    - unfold Inv. cbn [ms_lvl ms_aside ms_res result_new r_txs]. split; [exact HQ|].
      split; intros ? []. }
  destruct HI as (I1 & I2 & I3).
  unfold finish in H. inversion H; subst; clear H. cbn [r_txs]. split; [|exact I3].
  intros k Hk. unfold resting in Hk. cbn [set_queue lq] in Hk. apply In_ids_fold_push in Hk.
  destruct Hk as [Hk|Hk]; [|apply I1, Hk].
  unfold ids in Hk. apply in_map_iff in Hk. destruct Hk as (o & <- & Ho). apply I2, Ho.
Qed.

(* Every maker of a match result rested in the level when the match started,
   and a match brings no new id into the level. *)
Theorem match_makers_resting fuel l g qty taker l' g' r :
  match_order mf fuel l g qty taker = Some (l', g', r) ->
  forall t, In t (r_txs r) -> In (tx_maker t) (ids (resting l)).
Proof.
  intros H. apply (match_order_ids_gen (fun k => In k (ids (resting l))) _ _ _ _ _ _ _ _ H). auto.
Qed.

Theorem match_no_new_ids fuel l g qty taker l' g' r :
  match_order mf fuel l g qty taker = Some (l', g', r) ->
  forall k, In k (ids (resting l')) -> In k (ids (resting l)).
Proof.
  intros H. apply (match_order_ids_gen (fun k => In k (ids (resting l))) _ _ _ _ _ _ _ _ H). auto.
Qed.

Lemma update_no_new_ids l u l' r :
  update_order l u = (l', r) -> forall k, In k (ids (resting l')) -> In k (ids (resting l)).
Proof.
  intros H.
  assert (Ht : forall k0, take_out l k0 = (l', r) ->
                 forall k, In k (ids (resting l')) -> In k (ids (resting l))).
  { intros k0 Hk k. destruct (lookup k0 (resting l)) as [o|] eqn:E.
    - rewrite (take_out_present _ _ _ E) in Hk. inversion Hk; subst. unfold resting. cbn [lq qmap].
      intros Hi. apply In_ids_remove_key in Hi. apply Hi.
    - rewrite (take_out_absent _ _ E) in Hk. inversion Hk; subst. auto. }
  assert (Ha : forall k0 nq, amend l k0 nq = (l', r) ->
                 forall k, In k (ids (resting l')) -> In k (ids (resting l))).
  { intros k0 nq Hk k. destruct (lookup k0 (resting l)) as [o|] eqn:E.
    - rewrite (amend_present _ _ _ _ E) in Hk. cbv zeta in Hk. inversion Hk; subst.
      unfold resting in *. cbn [lq push qmap].
      intros Hi. apply In_ids_upsert in Hi. destruct Hi as [Hi|Hi].
      + subst k. rewrite wrq_oid, (lookup_Some_oid _ _ _ E). apply lookup_Some_iff. eauto.
      + apply In_ids_remove_key in Hi. apply Hi.
    - rewrite (amend_absent _ _ _ E) in Hk. inversion Hk; subst. auto. }
  destruct u as [k0 np|k0 nq|k0 np nq|k0|k0 p q s]; cbn [update_order] in H.
  - destruct (np =? price l); [inversion H; subst; auto|eauto].
  - eauto.
  - destruct (np =? price l); eauto.
  - eauto.
  - destruct (p =? price l); eauto.
Qed.

(* One step: ids only enter by [OAdd]; makers of a match rested before it. *)
Lemma step_ids l g o l' g' x :
  step mf (l, g) o (l', g') x ->
  (forall k, In k (ids (resting l')) ->
     In k (ids (resting l)) \/ exists a, o = OAdd a /\ oid_of a = k) /\
  (forall r t, x = OutMatch r -> In t (r_txs r) -> In (tx_maker t) (ids (resting l))).
Proof.
  intros H. inversion H; subst.
  - split; [|discriminate]. intros k Hk. unfold resting in Hk. cbn [add_order lq push qmap] in Hk.
    apply In_ids_upsert in Hk. destruct Hk as [Hk|Hk]; [right; eauto|left; exact Hk].
  - split.
    + intros k Hk. left. eapply match_no_new_ids; eassumption.
    + intros r0 t Hr. inversion Hr; subst. eapply match_makers_resting; eassumption.
  - split; [|discriminate]. intros k Hk. left. eapply update_no_new_ids; eassumption.
  - split; [|discriminate]. intros k Hk. left. unfold resting in Hk. cbn [from_snapshot lq] in Hk.
    unfold from_vec in Hk. apply In_ids_fold_push in Hk. destruct Hk as [Hk|[]].
    cbn [refresh sn_orders] in Hk. unfold ids in *. apply in_map_iff in Hk.
    destruct Hk as (a & <- & Ha). apply in_map.
    match goal with Hl : listing_of _ _ |- _ => destruct Hl as [Hp _] end.
    eapply Permutation_in; eassumption.
  - split; [|discriminate]. intros k Hk. left. unfold resting in Hk. unfold from_data in Hk.
    rewrite fold_push_lq in Hk. apply In_ids_fold_push in Hk. destruct Hk as [Hk|[]].
    unfold ids in *. apply in_map_iff in Hk.
    destruct Hk as (a & <- & Ha). apply in_map.
    match goal with Hl : listing_of _ _ |- _ => destruct Hl as [Hp _] end.
    eapply Permutation_in; eassumption.
  - split; [|discriminate]. auto.
Qed.

(* An id that is not resting and is not added again stays out and never appears
   as the maker of a transaction. *)
Theorem absent_never_trades k : forall s ops s' outs,
  steps mf s ops s' outs ->
  lookup k (resting (fst s)) = None ->
  (forall a, In (OAdd a) ops -> oid_of a <> k) ->
  lookup k (resting (fst s')) = None /\
  forall r t, In (OutMatch r) outs -> In t (r_txs r) -> tx_maker t <> k.
Proof.
  induction 1 as [s|s o s1 x ops s' outs Hok Hs Hf Hss IH]; intros Hl Hadd.
  - split; [exact Hl|]. intros r t [].
  - destruct s as [l g], s1 as [l1 g1]. cbn [fst] in *.
    destruct (step_ids _ _ _ _ _ _ Hs) as [Hnew Hmk].
    apply lookup_None_iff in Hl.
    assert (Hl1 : lookup k (resting l1) = None).
    { apply lookup_None_iff. intros Hi. apply Hnew in Hi. destruct Hi as [Hi|(a & -> & Ha)].
      - contradiction.
      - apply (Hadd a); [left; reflexivity|exact Ha]. }
    destruct (IH Hl1) as [Hfin Hno].
    { intros a Ha. apply Hadd. right. exact Ha. }
    split; [exact Hfin|]. intros r t [Hx|Hx] Ht.
    + intros Ek. apply Hl. rewrite <- Ek. eapply Hmk; eassumption.
    + eapply Hno; eassumption.
Qed.

(* After a successful cancel or move of [k], in any continuation that does not
   add [k] again, [k] is never the maker of a transaction. *)
Theorem cancelled_never_trades l k u o l' r g ops s' outs :
  takes_out l k u -> lookup k (resting l) = Some o -> update_order l u = (l', r) ->
  steps mf (l', g) ops s' outs ->
  (forall a, In (OAdd a) ops -> oid_of a <> k) ->
  forall res t, In (OutMatch res) outs -> In t (r_txs res) -> tx_maker t <> k.
Proof.
  intros Hu Hl H Hss Hadd.
  destruct (remove_present _ _ _ _ _ _ Hu Hl H) as (_ & Habs & _).
  apply (absent_never_trades k _ _ _ _ Hss Habs Hadd).
Qed.
End MatchIds.

(* ================================================================== *)
(* 7. Read-only calls are pure                                         *)

(* In the model a read is the identity on the state by construction, and
   [snapshot_of], [to_vec], [total_quantity] are Gallina functions of the level:
   purity is trivial here.  The deciding evidence that the IMPLEMENTATION's
   listing / snapshot / display / serialise / statistics calls are pure is the
   differential run, which interleaves them at arbitrary points and compares
   every later answer with this model. *)
Theorem read_pure mf l g s' x :
  step mf (l, g) ORead s' x -> s' = (l, g) /\ x = OutRead (snapshot_of l) (st l).
Proof. intros H. inversion H; subst. split; reflexivity. Qed.

Definition is_read (o : op) : bool := match o with ORead => true | _ => false end.
Definition is_read_out (x : out) : bool := match x with OutRead _ _ => true | _ => false end.

Lemma step_read_out mf s o s1 x : step mf s o s1 x -> is_read_out x = is_read o.
Proof. intros H. inversion H; reflexivity. Qed.

(* Erasing every read from a history changes neither the final state nor any
   other answer: reads never change any later result. *)
Theorem reads_erasable mf s ops s' outs :
  steps mf s ops s' outs ->
  steps mf s (filter (fun o => negb (is_read o)) ops) s'
             (filter (fun x => negb (is_read_out x)) outs).
Proof.
  induction 1 as [s|s o s1 x ops s' outs Hok Hs Hf Hss IH]; cbn [filter]; [constructor|].
  rewrite (step_read_out _ _ _ _ _ Hs).
  destruct o; cbn [is_read negb]; try (econstructor; eassumption).
  destruct s as [l g]. apply read_pure in Hs. destruct Hs as [-> _]. exact IH.
Qed.

(* Conversely a read can be inserted anywhere. *)
Lemma steps_app mf s ops1 s1 outs1 ops2 s' outs2 :
  steps mf s ops1 s1 outs1 -> steps mf s1 ops2 s' outs2 ->
  steps mf s (ops1 ++ ops2) s' (outs1 ++ outs2).
Proof.
  induction 1 as [s|s o s1 x ops s'' outs Hok Hs Hf Hss IH]; intros H2; cbn [app]; [exact H2|].
  econstructor; try eassumption. apply IH. exact H2.
Qed.

Theorem read_insertable mf s ops1 s1 outs1 ops2 s' outs2 :
  steps mf s ops1 s1 outs1 -> steps mf s1 ops2 s' outs2 -> Fits (fst s1) ->
  steps mf s (ops1 ++ ORead :: ops2) s'
        (outs1 ++ OutRead (snapshot_of (fst s1)) (st (fst s1)) :: outs2).
Proof.
  intros H1 H2 Hf. apply (steps_app _ _ _ _ _ _ _ _ H1).
  destruct s1 as [l1 g1]. econstructor; [exact I|constructor|exact Hf|exact H2].
Qed.

(* the read-only observers are functions of the state *)
Lemma observers_functional l1 l2 :
  l1 = l2 ->
  snapshot_of l1 = snapshot_of l2 /\ to_vec (lq l1) = to_vec (lq l2) /\
  total_quantity l1 = total_quantity l2.
Proof. intros ->. repeat split. Qed.
