(* StatsRebuildProofs.v — C15 (sequential) for histories WITH rebuilds: at any point the
   statistics of the level are what the last rebuild recorded plus the counts / sums over
   the events since that rebuild (Spec/StatsSpec.v: since_rebuild, rebuild_base).
   Built on the invariant [StI] of Proofs/StatsProofs.v, which is stated from an arbitrary
   start state; this file adds the two rebuild steps and the cut of the history. *)
From PL Require Import Model.Level Spec.Hist Spec.StatsSpec
  Proofs.OrderProofs Proofs.BaseLemmas Proofs.LevelInv Proofs.StatsProofs.
From Coq Require Import Lia ZifyBool ZifyN.
Local Open Scope N_scope.

(* ================================================================== *)
(* the cut of a history at its last rebuild                            *)

Lemma since_rebuild_cons e h :
  since_rebuild (e :: h) =
  if has_rebuild h then since_rebuild h else if ev_rebuild e then h else e :: h.
Proof. reflexivity. Qed.

Lemma before_rebuild_cons e h :
  before_rebuild (e :: h) =
  if has_rebuild h then e :: before_rebuild h else if ev_rebuild e then [e] else [].
Proof. reflexivity. Qed.

Lemma rebuild_base_cons e h :
  rebuild_base (e :: h) = if has_rebuild h then rebuild_base h else op_readded (fst e).
Proof. reflexivity. Qed.

Lemma has_rebuild_cons e h : has_rebuild (e :: h) = ev_rebuild e || has_rebuild h.
Proof. reflexivity. Qed.

(* without a rebuild nothing is cut *)
Lemma since_rebuild_none h : has_rebuild h = false -> since_rebuild h = h.
Proof.
  destruct h as [|e h]; [reflexivity|]. rewrite has_rebuild_cons, since_rebuild_cons.
  intros H. apply orb_false_iff in H. destruct H as [He Hh]. rewrite Hh, He. reflexivity.
Qed.

Lemma before_rebuild_none h : has_rebuild h = false -> before_rebuild h = [].
Proof.
  destruct h as [|e h]; [reflexivity|]. rewrite has_rebuild_cons, before_rebuild_cons.
  intros H. apply orb_false_iff in H. destruct H as [He Hh]. rewrite Hh, He. reflexivity.
Qed.

Lemma rebuild_base_none h : has_rebuild h = false -> rebuild_base h = 0.
Proof.
  destruct h as [|[o x] h]; [reflexivity|]. rewrite has_rebuild_cons, rebuild_base_cons.
  intros H. apply orb_false_iff in H. destruct H as [He Hh]. rewrite Hh.
  unfold ev_rebuild in He. cbn [fst] in *. destruct o; try discriminate; reflexivity.
Qed.

(* h = before ++ since *)
Lemma cut_rebuild_app h : before_rebuild h ++ since_rebuild h = h.
Proof.
  induction h as [|e h IH]; [reflexivity|].
  rewrite since_rebuild_cons, before_rebuild_cons.
  destruct (has_rebuild h) eqn:Hh.
  - cbn [app]. rewrite IH. reflexivity.
  - destruct (ev_rebuild e); reflexivity.
Qed.

(* no rebuild after the cut *)
Lemma since_rebuild_clean h : has_rebuild (since_rebuild h) = false.
Proof.
  induction h as [|e h IH]; [reflexivity|]. rewrite since_rebuild_cons.
  destruct (has_rebuild h) eqn:Hh; [exact IH|].
  destruct (ev_rebuild e) eqn:He; [exact Hh|].
  rewrite has_rebuild_cons, He, Hh. reflexivity.
Qed.

(* the part before the cut is empty (no rebuild at all) or ends with the last rebuild event,
   whose operation fixes [rebuild_base] *)
Lemma before_rebuild_last h :
  (has_rebuild h = false /\ before_rebuild h = [] /\ rebuild_base h = 0) \/
  (exists pre e, has_rebuild h = true /\ before_rebuild h = pre ++ [e] /\ ev_rebuild e = true /\
                 rebuild_base h = op_readded (fst e)).
Proof.
  induction h as [|e h IH].
  - left. repeat split.
  - rewrite has_rebuild_cons, before_rebuild_cons, rebuild_base_cons.
    destruct IH as [(Hh & _ & _)|(pre & e' & Hh & Hb & He' & Hr)]; rewrite Hh.
    + destruct (ev_rebuild e) eqn:He.
      * right. exists [], e. repeat split. exact He.
      * left. repeat split.
        destruct e as [o x]. unfold ev_rebuild in He. cbn [fst] in *.
        destruct o; try discriminate; reflexivity.
    + right. exists (e :: pre), e'. rewrite Hb, orb_true_r. repeat split; assumption.
Qed.

Lemma has_rebuild_no_rebuild ops outs :
  no_rebuild ops = true -> has_rebuild (combine ops outs) = false.
Proof.
  revert outs. induction ops as [|o ops IH]; intros outs H; [reflexivity|].
  destruct outs as [|x outs]; [reflexivity|].
  cbn [no_rebuild forallb] in H. apply andb_true_iff in H. destruct H as [H1 H2].
  cbn [combine]. rewrite has_rebuild_cons. unfold ev_rebuild. cbn [fst].
  apply negb_true_iff in H1. rewrite H1. cbn [orb]. apply IH. exact H2.
Qed.

Lemma pm_after_app pm h1 h2 : pm_after pm (h1 ++ h2) = pm_after (pm_after pm h1) h2.
Proof. unfold pm_after. apply fold_left_app. Qed.

Lemma pm_after_cons pm e h : pm_after pm (e :: h) = pm_after (ev_pm pm e) h.
Proof. reflexivity. Qed.

Lemma pm_after_nil pm : pm_after pm [] = pm.
Proof. reflexivity. Qed.

(* when every order added carries price [p], a constant-[p] map stays constant *)
Lemma pm_after_const p : forall h pm,
  (forall k, pm k = p) -> (forall o (x : out), In (OAdd o, x) h -> price_of o = p) ->
  forall k, pm_after pm h k = p.
Proof.
  induction h as [|e h IH]; intros pm Hpm Hadd k; [apply Hpm|].
  rewrite pm_after_cons. apply IH.
  - intros k'. destruct e as [o x]. destruct o; cbn [ev_pm]; try apply Hpm.
    unfold upd_price. destruct (oid_eqb k' (oid_of o)); [|apply Hpm].
    apply (Hadd o x). left. reflexivity.
  - intros o x Hin. apply (Hadd o x). right. exact Hin.
Qed.

(* ================================================================== *)
(* the two rebuild steps                                               *)

Lemma fold_add_order_stats os : forall l a,
  s_added (st l) = a mod W ->
  price (fold_left add_order os l) = price l /\
  s_added (st (fold_left add_order os l)) = (a + N.of_nat (length os)) mod W /\
  s_removed (st (fold_left add_order os l)) = s_removed (st l) /\
  s_qty (st (fold_left add_order os l)) = s_qty (st l) /\
  s_value (st (fold_left add_order os l)) = s_value (st l) /\
  (forall x, In x (resting (fold_left add_order os l)) -> In x (resting l) \/ In x os).
Proof.
  induction os as [|o os IH]; intros l a Ha; cbn [fold_left length].
  - rewrite N.add_0_r. repeat split; try assumption. intros x Hx. left. exact Hx.
  - assert (Ha' : s_added (st (add_order l o)) = (a + 1) mod W).
    { cbn [add_order st record_added s_added]. rewrite Ha. apply wadd_mod_l. }
    destruct (IH (add_order l o) (a + 1) Ha') as (H1 & H2 & H3 & H4 & H5 & H6).
    split; [rewrite H1; reflexivity|].
    split; [rewrite H2; f_equal; lia|].
    split; [rewrite H3; reflexivity|].
    split; [rewrite H4; reflexivity|].
    split; [rewrite H5; reflexivity|].
    intros x Hx. apply H6 in Hx. destruct Hx as [Hx|Hx]; [|right; right; exact Hx].
    rewrite resting_add_order in Hx. apply In_upsert in Hx. destruct Hx as [->|[Hx _]].
    + right. left. reflexivity.
    + left. exact Hx.
Qed.

Lemma from_data_StI p pm os :
  PriceOk pm os -> StI p pm (N.of_nat (length os)) 0 0 0 (from_data p os).
Proof.
  intros Hpm. unfold from_data.
  destruct (fold_add_order_stats os (new_level p) 0 eq_refl) as (H1 & H2 & H3 & H4 & H5 & H6).
  unfold StI. rewrite H1, H2, H3, H4, H5, N.add_0_l. repeat split.
  intros x Hx. apply H6 in Hx. destruct Hx as [[]|Hx]. apply Hpm. exact Hx.
Qed.

Lemma from_snapshot_StI p pm a b c os :
  PriceOk pm os -> StI p pm 0 0 0 0 (from_snapshot (mkSnap p a b c os)).
Proof.
  intros Hpm. unfold StI, from_snapshot, refresh, resting.
  cbn [sn_price sn_vis sn_hid sn_cnt sn_orders price st lq stats0 s_added s_removed s_qty s_value].
  repeat split.
  intros x Hx. unfold from_vec in Hx. apply In_fold_push in Hx. destruct Hx as [[]|Hx].
  apply Hpm. exact Hx.
Qed.

Section Rebuild.
Variable mf : order -> N -> mres.
Hypothesis HId : I_id mf.

(* a rebuild keeps the price and the resting orders (hence the price map) and restarts the
   four counters at (orders re-added, 0, 0, 0) *)
Lemma step_rebuild_StI p pm a r q v s o s1 x :
  step mf s o s1 x -> is_rebuild o = true -> StI p pm a r q v (fst s) ->
  StI p pm (op_readded o) 0 0 0 (fst s1) /\ ev_tx_price p (o, x) /\ ev_pm pm (o, x) = pm.
Proof.
  intros Hstep Hrb HS. destruct HS as (Hp & _ & _ & _ & _ & Hpm).
  destruct Hstep as [l g o|l g qty taker fuel l' g' r0 Hm|l g u l' uo Hu
                    |l g listing HL|l g listing HL|l g];
    cbn [fst is_rebuild] in *; try discriminate.
  - (* from_snapshot *)
    cbn [op_readded ev_tx_price ev_pm]. split; [|split; [exact I|reflexivity]].
    rewrite Hp. apply from_snapshot_StI.
    eapply PriceOk_sub; [|exact Hpm]. intros y Hy. destruct HL as [HP _].
    exact (Permutation_in _ HP Hy).
  - (* from_data *)
    cbn [op_readded ev_tx_price ev_pm]. split; [|split; [exact I|reflexivity]].
    rewrite Hp. apply from_data_StI.
    eapply PriceOk_sub; [|exact Hpm]. intros y Hy. destruct HL as [HP _].
    exact (Permutation_in _ HP Hy).
Qed.

(* what carries over from the start state: everything without a rebuild, nothing with one *)
Definition carried (a : N) (h : hist) : N := if has_rebuild h then 0 else a.

Lemma steps_StI_rebuild p s ops s' outs :
  steps mf s ops s' outs ->
  forall pm a r q v, StI p pm a r q v (fst s) ->
  let h := combine ops outs in
  let hs := since_rebuild h in
  (exists pm', StI p pm' (carried a h + rebuild_base h + n_added hs)
                   (carried r h + n_removed p hs) (carried q h + qty_executed hs)
                   (carried v h + value_executed (pm_after pm (before_rebuild h)) hs) (fst s')) /\
  Forall (ev_tx_price p) h.
Proof.
  induction 1 as [s|s o s1 x ops s' outs Hok Hstep F Hsteps IH]; intros pm a r q v HS.
  - cbn. rewrite !N.add_0_r. split; [exists pm; exact HS | constructor].
  - cbn [combine]. cbv zeta.
    rewrite since_rebuild_cons, before_rebuild_cons, rebuild_base_cons.
    unfold carried. rewrite has_rebuild_cons.
    change (ev_rebuild (o, x)) with (is_rebuild o). cbn [fst].
    destruct (is_rebuild o) eqn:Hrb.
    + (* the head is a rebuild *)
      destruct (step_rebuild_StI p pm a r q v _ _ _ _ Hstep Hrb HS) as (HS1 & Htx & Hpm).
      destruct (IH _ _ _ _ _ HS1) as [(pm' & HS') Hall]. cbv zeta in HS'. unfold carried in HS'.
      split; [|constructor; assumption]. exists pm'. cbn [orb].
      destruct (has_rebuild (combine ops outs)) eqn:Hh.
      * rewrite pm_after_cons, Hpm. exact HS'.
      * rewrite (since_rebuild_none _ Hh), (before_rebuild_none _ Hh), (rebuild_base_none _ Hh) in HS'.
        rewrite pm_after_cons, Hpm. rewrite !N.add_0_l in *. rewrite N.add_0_r in HS'. exact HS'.
    + (* the head is an ordinary event *)
      destruct (step_StI mf HId p pm a r q v _ _ _ _ Hstep Hrb HS) as [HS1 Htx].
      destruct (IH _ _ _ _ _ HS1) as [(pm' & HS') Hall]. cbv zeta in HS'. unfold carried in HS'.
      split; [|constructor; assumption]. exists pm'. cbn [orb].
      destruct (has_rebuild (combine ops outs)) eqn:Hh.
      * rewrite pm_after_cons. exact HS'.
      * rewrite (since_rebuild_none _ Hh), (before_rebuild_none _ Hh), (rebuild_base_none _ Hh) in HS'.
        rewrite pm_after_nil in *.
        assert (Hz : op_readded o = 0) by (destruct o; try discriminate; reflexivity).
        rewrite Hz.
        cbn [n_added n_removed qty_executed value_executed fold_right].
        fold (n_added (combine ops outs)). fold (n_removed p (combine ops outs)).
        fold (qty_executed (combine ops outs)).
        rewrite !N.add_0_r in *. rewrite !N.add_assoc. exact HS'.
Qed.

(* the general statement, from an empty level: congruences modulo 2^64 *)
Lemma stats_rebuild_mod p g0 ops l g outs :
  steps mf (new_level p, g0) ops (l, g) outs ->
  let h := combine ops outs in
  let hs := since_rebuild h in
  price l = p /\
  s_added (st l) = (rebuild_base h + n_added hs) mod W /\
  s_removed (st l) = n_removed p hs mod W /\
  s_qty (st l) = qty_executed hs mod W /\
  (forall pm, s_value (st l) = value_executed (pm_after pm (before_rebuild h)) hs mod W) /\
  (all_added_at p ops -> s_value (st l) = (qty_executed hs * p) mod W) /\
  Forall (ev_tx_price p) h.
Proof.
  intros Hs h hs.
  assert (Hall : forall pm,
    price l = p /\ s_added (st l) = (rebuild_base h + n_added hs) mod W /\
    s_removed (st l) = n_removed p hs mod W /\ s_qty (st l) = qty_executed hs mod W /\
    s_value (st l) = value_executed (pm_after pm (before_rebuild h)) hs mod W /\
    Forall (ev_tx_price p) h).
  { intros pm.
    destruct (steps_StI_rebuild p _ _ _ _ Hs pm 0 0 0 0 (StI_new_level p pm))
      as [(pm' & (H1 & H2 & H3 & H4 & H5 & _)) Hf].
    cbn [fst] in *. fold h in H2, H3, H4, H5, Hf. fold hs in H2, H3, H4, H5.
    unfold carried in *. destruct (has_rebuild h); rewrite !N.add_0_l in *; repeat split; assumption. }
  destruct (Hall (fun _ => 0)) as (H1 & H2 & H3 & H4 & _ & H6).
  split; [exact H1|]. split; [exact H2|]. split; [exact H3|]. split; [exact H4|].
  split; [intros pm; apply (Hall pm)|]. split; [|exact H6].
  intros Hadd. destruct (Hall (fun _ => p)) as (_ & _ & _ & _ & H5 & _). rewrite H5. f_equal.
  assert (Hin : forall o (x : out), In (OAdd o, x) h -> price_of o = p).
  { apply all_added_at_hist. exact Hadd. }
  rewrite N.mul_comm. apply value_executed_const.
  - apply pm_after_const; [reflexivity|].
    intros o x Hx. apply (Hin o x). rewrite <- (cut_rebuild_app h). apply in_or_app. left. exact Hx.
  - intros o x Hx. apply (Hin o x). rewrite <- (cut_rebuild_app h). apply in_or_app. right. exact Hx.
Qed.

End Rebuild.

(* the exact statement when the true sums fit in 64 bits *)
Lemma stats_rebuild_exact mf p g0 ops l g outs :
  I_id mf -> steps mf (new_level p, g0) ops (l, g) outs -> all_added_at p ops ->
  let h := combine ops outs in
  let hs := since_rebuild h in
  rebuild_base h + n_added hs < W -> n_removed p hs < W -> qty_executed hs < W ->
  qty_executed hs * p < W ->
  s_added (st l) = rebuild_base h + n_added hs /\ s_removed (st l) = n_removed p hs /\
  s_qty (st l) = qty_executed hs /\ s_value (st l) = qty_executed hs * p.
Proof.
  intros HId Hs Hadd h hs Ha Hr Hq Hv.
  destruct (stats_rebuild_mod mf HId p g0 ops l g outs Hs) as (_ & H2 & H3 & H4 & _ & H5 & _).
  fold h in H2, H3, H4, H5. fold hs in H2, H3, H4, H5.
  rewrite H2, H3, H4, (H5 Hadd). rewrite !N.mod_small by assumption. repeat split.
Qed.

(* a history without a rebuild: the new statement is the old one *)
Lemma stats_rebuild_no_rebuild ops outs :
  no_rebuild ops = true ->
  since_rebuild (combine ops outs) = combine ops outs /\ rebuild_base (combine ops outs) = 0 /\
  before_rebuild (combine ops outs) = [].
Proof.
  intros H. pose proof (has_rebuild_no_rebuild ops outs H) as Hh.
  split; [apply since_rebuild_none; exact Hh|].
  split; [apply rebuild_base_none; exact Hh|apply before_rebuild_none; exact Hh].
Qed.
