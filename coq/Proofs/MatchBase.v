(* MatchBase.v — base lemmas for the match-loop proofs (C06, C02): ids, map
   lookups, pop, sums, and a one-iteration view ([next]/[stop]) of [match_loop]
   with an invariant rule.  No property statements live here. *)
From PL Require Import Model.Level Spec.Hist Proofs.OrderProofs.
From Coq Require Import Lia ZifyBool ZifyN.
Local Open Scope N_scope.

(* ------------------------------------------------------------------ ids *)
Lemma oid_eqb_eq a b : oid_eqb a b = true <-> a = b.
Proof.
  destruct a as [x|x], b as [y|y]; cbn; split; intro H; try discriminate;
    try (apply N.eqb_eq in H; congruence); inversion H; apply N.eqb_refl.
Qed.

Lemma oid_eqb_refl a : oid_eqb a a = true.
Proof. apply oid_eqb_eq; reflexivity. Qed.

Lemma oid_eqb_neq a b : oid_eqb a b = false <-> a <> b.
Proof.
  split.
  - intros H E. apply oid_eqb_eq in E. congruence.
  - intros H. destruct (oid_eqb a b) eqn:E; [apply oid_eqb_eq in E; contradiction | reflexivity].
Qed.

Lemma oid_eqb_sym a b : oid_eqb a b = oid_eqb b a.
Proof.
  destruct (oid_eqb b a) eqn:E.
  - apply oid_eqb_eq in E. subst. apply oid_eqb_refl.
  - apply oid_eqb_neq in E. apply oid_eqb_neq. congruence.
Qed.

Lemma oid_eq_dec (a b : oid) : {a = b} + {a <> b}.
Proof.
  destruct (oid_eqb a b) eqn:E; [left; apply oid_eqb_eq; exact E | right; apply oid_eqb_neq; exact E].
Qed.

(* --------------------------------------------------------------- lookup *)
Lemma lookup_Some k m o : lookup k m = Some o -> In o m /\ oid_of o = k.
Proof.
  induction m as [|x m IH]; cbn [lookup]; [discriminate|].
  destruct (oid_eqb k (oid_of x)) eqn:E.
  - intros H; inversion H; subst. apply oid_eqb_eq in E. split; [left; reflexivity | congruence].
  - intros H. destruct (IH H) as [Hin Hid]. split; [right; exact Hin | exact Hid].
Qed.

Lemma lookup_None k m : lookup k m = None <-> ~ In k (ids m).
Proof.
  induction m as [|x m IH]; cbn [lookup ids map In].
  - split; [intros _ []| reflexivity].
  - destruct (oid_eqb k (oid_of x)) eqn:E.
    + apply oid_eqb_eq in E. split; [discriminate | intros H; exfalso; apply H; left; congruence].
    + apply oid_eqb_neq in E. rewrite IH. unfold ids. split.
      * intros H [H1|H1]; [congruence | exact (H H1)].
      * intros H H1. apply H. right. exact H1.
Qed.

Lemma lookup_In_ids k m o : lookup k m = Some o -> In k (ids m).
Proof.
  intros H. destruct (lookup_Some _ _ _ H) as [Hin Hid]. subst k. apply in_map. exact Hin.
Qed.

Lemma NoDup_lookup m o : NoDup (ids m) -> In o m -> lookup (oid_of o) m = Some o.
Proof.
  induction m as [|x m IH]; cbn [ids map In lookup]; [intros _ []|].
  intros Hnd [->|Hin].
  - rewrite oid_eqb_refl. reflexivity.
  - inversion Hnd as [|? ? Hx Hnd']; subst.
    destruct (oid_eqb (oid_of o) (oid_of x)) eqn:E.
    + apply oid_eqb_eq in E. exfalso. apply Hx. rewrite <- E. apply in_map. exact Hin.
    + apply IH; assumption.
Qed.

Lemma lookup_app k a b :
  lookup k (a ++ b) = match lookup k a with Some o => Some o | None => lookup k b end.
Proof.
  induction a as [|x a IH]; cbn [lookup app]; [reflexivity|].
  destruct (oid_eqb k (oid_of x)); [reflexivity | exact IH].
Qed.

Lemma lookup_remove_key k j m :
  lookup k (remove_key j m) = if oid_eqb j k then None else lookup k m.
Proof.
  unfold remove_key. induction m as [|x m IH]; cbn [filter lookup].
  - destruct (oid_eqb j k); reflexivity.
  - destruct (oid_eqb j (oid_of x)) eqn:Ej; cbn [negb].
    + rewrite IH. destruct (oid_eqb j k) eqn:Ejk; [reflexivity|].
      apply oid_eqb_eq in Ej. subst j. rewrite (oid_eqb_sym k), Ejk. reflexivity.
    + cbn [lookup]. rewrite IH.
      destruct (oid_eqb k (oid_of x)) eqn:Ek; [|reflexivity].
      apply oid_eqb_eq in Ek. subst k. rewrite Ej. reflexivity.
Qed.

Lemma remove_key_In j m x : In x (remove_key j m) <-> In x m /\ oid_of x <> j.
Proof.
  unfold remove_key. rewrite filter_In. split; intros [H1 H2]; split; try exact H1.
  - intros E. subst j. rewrite oid_eqb_refl in H2. discriminate.
  - destruct (oid_eqb j (oid_of x)) eqn:E; [|reflexivity].
    apply oid_eqb_eq in E. congruence.
Qed.

Lemma remove_key_absent j m : lookup j m = None -> remove_key j m = m.
Proof.
  unfold remove_key. induction m as [|x m IH]; cbn [lookup filter]; [reflexivity|].
  destruct (oid_eqb j (oid_of x)) eqn:E; [discriminate|].
  cbn [negb]. intros H. rewrite (IH H). reflexivity.
Qed.

Lemma remove_key_idem j m : remove_key j (remove_key j m) = remove_key j m.
Proof. apply remove_key_absent. rewrite lookup_remove_key, oid_eqb_refl. reflexivity. Qed.

Lemma ids_app a b : ids (a ++ b) = ids a ++ ids b.
Proof. apply map_app. Qed.

Lemma NoDup_ids_remove_key j m : NoDup (ids m) -> NoDup (ids (remove_key j m)).
Proof.
  unfold remove_key. induction m as [|x m IH]; cbn [ids map filter]; [auto|].
  intros H. inversion H as [|? ? Hx Hnd]; subst.
  destruct (negb (oid_eqb j (oid_of x))); cbn [map]; [|apply IH; exact Hnd].
  constructor; [|apply IH; exact Hnd].
  intros Hin. apply Hx. apply in_map_iff in Hin. destruct Hin as (y & Hy & Hin).
  apply filter_In in Hin. rewrite <- Hy. apply in_map. apply Hin.
Qed.

Lemma In_ids_remove_key k j m : In k (ids (remove_key j m)) <-> In k (ids m) /\ k <> j.
Proof.
  unfold ids. rewrite !in_map_iff. split.
  - intros (x & Hx & Hin). apply remove_key_In in Hin. destruct Hin. subst k.
    split; [exists x; auto | assumption].
  - intros [(x & Hx & Hin) Hne]. exists x. split; [exact Hx|]. apply remove_key_In. subst k. auto.
Qed.

(* ----------------------------------------------------------------- sums *)
Lemma sumv_cons x a : sumv (x :: a) = vis x + sumv a.
Proof. reflexivity. Qed.
Lemma sumh_cons x a : sumh (x :: a) = hid x + sumh a.
Proof. reflexivity. Qed.
Lemma sumv_nil : sumv [] = 0.
Proof. reflexivity. Qed.
Lemma sumh_nil : sumh [] = 0.
Proof. reflexivity. Qed.

Lemma sumv_app a b : sumv (a ++ b) = sumv a + sumv b.
Proof.
  induction a as [|x a IH]; [rewrite sumv_nil; cbn [app]; lia|].
  rewrite <- app_comm_cons, !sumv_cons, IH. lia.
Qed.

Lemma sumh_app a b : sumh (a ++ b) = sumh a + sumh b.
Proof.
  induction a as [|x a IH]; [rewrite sumh_nil; cbn [app]; lia|].
  rewrite <- app_comm_cons, !sumh_cons, IH. lia.
Qed.

(* removing a key never increases the hidden sum, and removes at least the
   order found under that key (no uniqueness of ids needed) *)
Lemma sumh_remove_key_le j m : sumh (remove_key j m) <= sumh m.
Proof.
  unfold remove_key. induction m as [|x m IH]; cbn [filter]; [lia|].
  destruct (negb (oid_eqb j (oid_of x))); rewrite ?sumh_cons; lia.
Qed.

Lemma sumh_remove_key_found j m o :
  lookup j m = Some o -> sumh (remove_key j m) + hid o <= sumh m.
Proof.
  unfold remove_key. induction m as [|x m IH]; cbn [lookup filter]; [discriminate|].
  destruct (oid_eqb j (oid_of x)) eqn:E; cbn [negb].
  - intros H; inversion H; subst. rewrite sumh_cons. pose proof (sumh_remove_key_le j m) as Hle.
    unfold remove_key in Hle. lia.
  - intros H. rewrite !sumh_cons. specialize (IH H). lia.
Qed.

(* with unique ids the sums split exactly *)
Lemma sumv_remove_key_found j m o :
  NoDup (ids m) -> lookup j m = Some o -> sumv (remove_key j m) + vis o = sumv m.
Proof.
  induction m as [|x m IH]; cbn [lookup]; [discriminate|].
  intros Hnd. inversion Hnd as [|? ? Hx Hnd']; subst.
  unfold remove_key. cbn [filter].
  destruct (oid_eqb j (oid_of x)) eqn:E; cbn [negb].
  - intros H; inversion H; subst. apply oid_eqb_eq in E. subst j.
    fold (remove_key (oid_of o) m). rewrite remove_key_absent; [rewrite sumv_cons; lia|].
    apply lookup_None. exact Hx.
  - intros H. rewrite !sumv_cons. fold (remove_key j m). specialize (IH Hnd' H). lia.
Qed.

Lemma sumh_remove_key_found_eq j m o :
  NoDup (ids m) -> lookup j m = Some o -> sumh (remove_key j m) + hid o = sumh m.
Proof.
  induction m as [|x m IH]; cbn [lookup]; [discriminate|].
  intros Hnd. inversion Hnd as [|? ? Hx Hnd']; subst.
  unfold remove_key. cbn [filter].
  destruct (oid_eqb j (oid_of x)) eqn:E; cbn [negb].
  - intros H; inversion H; subst. apply oid_eqb_eq in E. subst j.
    fold (remove_key (oid_of o) m). rewrite remove_key_absent; [rewrite sumh_cons; lia|].
    apply lookup_None. exact Hx.
  - intros H. rewrite !sumh_cons. fold (remove_key j m). specialize (IH Hnd' H). lia.
Qed.

Lemma sumv_zero m : (forall o, In o m -> vis o = 0) -> sumv m = 0.
Proof.
  induction m as [|x m IH]; intros H; [reflexivity|]. rewrite sumv_cons.
  rewrite (H x (or_introl eq_refl)), IH; [reflexivity|]. intros o Ho. apply H. right. exact Ho.
Qed.

(* ------------------------------------------------------------------ pop *)
Lemma pop_t_Some m t o m' t' :
  pop_t m t = Some (o, m', t') ->
  exists sk, t = sk ++ oid_of o :: t' /\ (forall j, In j sk -> lookup j m = None) /\
             lookup (oid_of o) m = Some o /\ m' = remove_key (oid_of o) m.
Proof.
  induction t as [|k t IH]; cbn [pop_t]; [discriminate|].
  destruct (lookup k m) as [x|] eqn:E.
  - intros H; inversion H; subst. destruct (lookup_Some _ _ _ E) as [_ Hid]. subst k.
    exists []. cbn. repeat split; auto. intros j [].
  - intros H. destruct (IH H) as (sk & -> & Hsk & Hl & Hm).
    exists (k :: sk). repeat split; auto. intros j [<-|Hj]; auto.
Qed.

Lemma pop_t_None m t : pop_t m t = None -> forall j, In j t -> lookup j m = None.
Proof.
  induction t as [|k t IH]; cbn [pop_t]; [intros _ j []|].
  destruct (lookup k m) as [x|] eqn:E; [discriminate|].
  intros H j [<-|Hj]; auto.
Qed.

Lemma pop_Some q o q' :
  pop q = (Some o, q') ->
  exists sk, tickets q = sk ++ oid_of o :: tickets q' /\
             (forall j, In j sk -> lookup j (qmap q) = None) /\
             lookup (oid_of o) (qmap q) = Some o /\
             qmap q' = remove_key (oid_of o) (qmap q).
Proof.
  unfold pop. destruct (pop_t (qmap q) (tickets q)) as [[[x m'] t']|] eqn:E; [|discriminate].
  intros H; inversion H; subst. cbn [qmap tickets]. apply pop_t_Some. exact E.
Qed.

Lemma pop_None q q' :
  pop q = (None, q') ->
  q' = mkQueue (qmap q) [] /\ forall j, In j (tickets q) -> lookup j (qmap q) = None.
Proof.
  unfold pop. destruct (pop_t (qmap q) (tickets q)) as [[[x m'] t']|] eqn:E; [discriminate|].
  intros H; inversion H; subst. split; [reflexivity|]. apply pop_t_None. exact E.
Qed.

Lemma pop_cases q : (exists o q', pop q = (Some o, q')) \/ (exists q', pop q = (None, q')).
Proof. destruct (pop q) as [[o|] q']; [left|right]; eauto. Qed.

(* a queue whose orders all hold a ticket and whose tickets are all stale is empty *)
Lemma covered_stale_empty q :
  Covered q -> (forall j, In j (tickets q) -> lookup j (qmap q) = None) -> qmap q = [].
Proof.
  intros Hc Hs. destruct (qmap q) as [|x m] eqn:E; [reflexivity|]. exfalso.
  assert (Hin : In x (qmap q)) by (rewrite E; left; reflexivity).
  specialize (Hs _ (Hc _ Hin)). apply lookup_None in Hs. apply Hs. apply in_map. rewrite E in Hin. exact Hin.
Qed.

(* ----------------------------------------------------------------- push *)
Lemma upsert_fresh u m : lookup (oid_of u) m = None -> upsert u m = m ++ [u].
Proof. intros H. unfold upsert. rewrite remove_key_absent; auto. Qed.

Lemma lookup_upsert k u m :
  lookup k (upsert u m) = if oid_eqb k (oid_of u) then Some u else lookup k m.
Proof.
  unfold upsert. rewrite lookup_app, lookup_remove_key. cbn [lookup].
  rewrite (oid_eqb_sym (oid_of u) k). destruct (oid_eqb k (oid_of u)); [reflexivity|].
  destruct (lookup k m); reflexivity.
Qed.

Lemma In_upsert x u m : In x (upsert u m) -> x = u \/ In x m.
Proof.
  unfold upsert. rewrite in_app_iff. intros [H|[H|[]]]; [right; apply remove_key_In in H; apply H | left; auto].
Qed.

Lemma In_fold_push x a q :
  In x (qmap (fold_left push a q)) -> In x (qmap q) \/ In x a.
Proof.
  revert q. induction a as [|y a IH]; intros q; cbn [fold_left]; [auto|].
  intros H. destruct (IH _ H) as [H1|H1]; [|right; right; exact H1].
  cbn [push qmap] in H1. apply In_upsert in H1. destruct H1 as [->|H1]; [right; left; reflexivity | left; exact H1].
Qed.

Lemma fold_push_fresh a q :
  NoDup (ids (qmap q ++ a)) ->
  qmap (fold_left push a q) = qmap q ++ a /\ tickets (fold_left push a q) = tickets q ++ ids a.
Proof.
  revert q. induction a as [|y a IH]; intros q Hnd; cbn [fold_left].
  - cbn [ids map]. rewrite !app_nil_r. auto.
  - assert (Hy : lookup (oid_of y) (qmap q) = None).
    { apply lookup_None. intros Hin. rewrite ids_app in Hnd. cbn [ids map] in Hnd.
      apply NoDup_remove_2 in Hnd. apply Hnd. apply in_or_app. left. exact Hin. }
    specialize (IH (push q y)). cbn [push qmap tickets] in IH. rewrite (upsert_fresh _ _ Hy) in IH.
    rewrite <- app_assoc in IH. cbn [app] in IH. destruct (IH Hnd) as [H1 H2].
    split; [exact H1|]. rewrite H2. rewrite <- app_assoc. reflexivity.
Qed.

(* NoDup bookkeeping for the "book" = map ++ set-aside orders *)
Lemma NoDup_app_l {A} (a b : list A) : NoDup (a ++ b) -> NoDup a.
Proof.
  induction a as [|x a IH]; cbn [app]; [constructor|].
  intros H. inversion H as [|? ? Hx Hnd]; subst. constructor; [|apply IH; exact Hnd].
  intros Hin. apply Hx. apply in_or_app. left. exact Hin.
Qed.

Lemma NoDup_book_map m a : NoDup (ids (m ++ a)) -> NoDup (ids m).
Proof. rewrite ids_app. apply NoDup_app_l. Qed.

Lemma NoDup_ids_filter_app f m a :
  NoDup (ids (m ++ a)) -> NoDup (ids (filter f m ++ a)).
Proof.
  induction m as [|x m IH]; cbn [filter app]; [auto|].
  cbn [ids map]. intros H. inversion H as [|? ? Hx Hnd]; subst.
  destruct (f x); [|apply IH; exact Hnd].
  cbn [app ids map]. constructor; [|apply IH; exact Hnd].
  intros Hin. apply Hx. fold (ids (m ++ a)). fold (ids (filter f m ++ a)) in Hin.
  rewrite ids_app in *. apply in_app_or in Hin. apply in_or_app.
  destruct Hin as [Hin|Hin]; [left|right; exact Hin].
  unfold ids in *. apply in_map_iff in Hin. destruct Hin as (y & Hy & Hin).
  apply filter_In in Hin. rewrite <- Hy. apply in_map. apply Hin.
Qed.

Lemma NoDup_ids_insert a b x :
  NoDup (ids (a ++ b)) -> ~ In (oid_of x) (ids (a ++ b)) -> NoDup (ids (a ++ x :: b)).
Proof.
  intros Hnd Hx. unfold ids in *.
  apply (Permutation_NoDup (l := map oid_of (x :: a ++ b))).
  - apply Permutation_map. apply Permutation_middle.
  - cbn [map]. constructor; assumption.
Qed.

(* ------------------------------------------------------- the interface *)
Lemma I_cons_I_id mf : I_cons mf -> I_id mf.
Proof. intros H o inc u Hu. specialize (H o inc). rewrite Hu in H. apply H. Qed.

Lemma I_id_oid mf o inc u : I_id mf -> m_updated (mf o inc) = Some u -> oid_of u = oid_of o.
Proof. intros H Hu. symmetry. apply same_identity_oid. exact (H o inc u Hu). Qed.

Lemma same_identity_refl o : same_identity o o.
Proof. destruct o; cbn; auto. Qed.

Lemma same_identity_trans a b c : same_identity a b -> same_identity b c -> same_identity a c.
Proof.
  destruct a, b; cbn; try contradiction; destruct c; cbn; try contradiction; intuition congruence.
Qed.

Lemma same_identity_side a b : same_identity a b -> side_of a = side_of b.
Proof. intros H. unfold side_of. rewrite (same_identity_com _ _ H). reflexivity. Qed.

(* ------------------------------------------- one iteration of the loop *)
Section Loop.
Variable mf : order -> N -> mres.

Definition is_aside (r : mres) : bool :=
  (m_consumed r =? 0) && (m_hidden_reduced r =? 0) && is_some (m_updated r).

(* state after an iteration that popped [o] leaving queue [q'] *)
Definition next (taker : oid) (s : mstate) (o : order) (q' : queue) : mstate :=
  let l := set_queue (ms_lvl s) q' in
  let r := mf o (ms_rem s) in
  if is_aside r then mkMstate l (ms_gen s) (ms_res s) (ms_rem s) (ms_aside s ++ [o])
  else let '(l', gen', res', rem') := visit mf l (ms_gen s) (ms_res s) taker (ms_rem s) o in
       mkMstate l' gen' res' rem' (ms_aside s).

(* state after an iteration whose pop found nothing *)
Definition stop (s : mstate) (q' : queue) : mstate :=
  mkMstate (set_queue (ms_lvl s) q') (ms_gen s) (ms_res s) (ms_rem s) (ms_aside s).

Lemma match_loop_S f taker s :
  match_loop mf (S f) taker s =
  if ms_rem s =? 0 then Some s else
  match pop (lq (ms_lvl s)) with
  | (None, q') => Some (stop s q')
  | (Some o, q') => match_loop mf f taker (next taker s o q')
  end.
Proof.
  cbn [match_loop]. destruct (ms_rem s =? 0); [reflexivity|].
  destruct (pop (lq (ms_lvl s))) as [[o|] q']; [|reflexivity].
  unfold next, is_aside.
  destruct ((m_consumed (mf o (ms_rem s)) =? 0) && (m_hidden_reduced (mf o (ms_rem s)) =? 0)
            && is_some (m_updated (mf o (ms_rem s)))); [reflexivity|].
  destruct (visit mf (set_queue (ms_lvl s) q') (ms_gen s) (ms_res s) taker (ms_rem s) o)
    as [[[l' g'] r'] rem']. reflexivity.
Qed.

Lemma match_loop_0 taker s :
  match_loop mf 0 taker s = if ms_rem s =? 0 then Some s else None.
Proof. reflexivity. Qed.

(* the result record after a visit *)
Definition next_res (p gen : N) (res : result) (taker : oid) (o : order) (r : mres) : result :=
  if 0 <? m_consumed r then
    let res' := add_transaction res
                  (mkTx gen taker (oid_of o) p (m_consumed r) (opposite (side_of o))) in
    if is_some (m_updated r) then res' else add_filled res' (oid_of o)
  else res.

Lemma visit_spec l gen res taker rem o :
  forall l' gen' res' rem',
  visit mf l gen res taker rem o = (l', gen', res', rem') ->
  let r := mf o rem in
  rem' = m_remaining r /\
  gen' = (if 0 <? m_consumed r then wadd gen 1 else gen) /\
  res' = next_res (price l) gen res taker o r /\
  price l' = price l /\
  lq l' = match m_updated r with Some u => push (lq l) u | None => lq l end.
Proof.
  intros l' gen' res' rem'. unfold visit, next_res.
  destruct (0 <? m_consumed (mf o rem)); destruct (m_updated (mf o rem)) as [u|];
    try destruct (0 <? m_hidden_reduced (mf o rem));
    intros H; inversion H; subst; cbn [price lq is_some]; repeat split.
Qed.

Definition kept (r : mres) : list order :=
  if is_aside r then [] else match m_updated r with Some u => [u] | None => [] end.
Definition put_aside (r : mres) (o : order) : list order :=
  if is_aside r then [o] else [].

Lemma next_spec taker s o q' :
  let r := mf o (ms_rem s) in
  let s' := next taker s o q' in
  ms_rem s' = (if is_aside r then ms_rem s else m_remaining r) /\
  ms_gen s' = (if 0 <? m_consumed r then wadd (ms_gen s) 1 else ms_gen s) /\
  ms_res s' = next_res (price (ms_lvl s)) (ms_gen s) (ms_res s) taker o r /\
  price (ms_lvl s') = price (ms_lvl s) /\
  lq (ms_lvl s') = (if is_aside r then q'
                    else match m_updated r with Some u => push q' u | None => q' end) /\
  ms_aside s' = ms_aside s ++ put_aside r o.
Proof.
  cbv zeta. unfold next, put_aside. destruct (is_aside (mf o (ms_rem s))) eqn:Ea.
  - cbn [ms_rem ms_gen ms_res ms_lvl ms_aside set_queue price lq].
    unfold is_aside in Ea. apply andb_true_iff in Ea. destruct Ea as [Ea _].
    apply andb_true_iff in Ea. destruct Ea as [Ea _].
    unfold next_res. replace (0 <? m_consumed (mf o (ms_rem s))) with false by lia.
    repeat split.
  - destruct (visit mf (set_queue (ms_lvl s) q') (ms_gen s) (ms_res s) taker (ms_rem s) o)
      as [[[l' g'] r'] rem'] eqn:Ev.
    apply visit_spec in Ev. cbv zeta in Ev. destruct Ev as (H1 & H2 & H3 & H4 & H5).
    cbn [ms_rem ms_gen ms_res ms_lvl ms_aside]. cbn [set_queue price lq] in *.
    rewrite app_nil_r. repeat split; assumption.
Qed.

(* the map and the set-aside list after an iteration *)
Definition book (s : mstate) : list order := qmap (lq (ms_lvl s)) ++ ms_aside s.

Lemma next_book taker s o q' :
  I_id mf -> pop (lq (ms_lvl s)) = (Some o, q') ->
  let r := mf o (ms_rem s) in
  let s' := next taker s o q' in
  qmap (lq (ms_lvl s')) = remove_key (oid_of o) (qmap (lq (ms_lvl s))) ++ kept r /\
  tickets (lq (ms_lvl s')) = tickets q' ++ ids (kept r) /\
  ms_aside s' = ms_aside s ++ put_aside r o.
Proof.
  intros Hid Hpop. cbv zeta.
  destruct (next_spec taker s o q') as (_ & _ & _ & _ & Hq & Ha).
  destruct (pop_Some _ _ _ Hpop) as (sk & _ & _ & _ & Hm).
  split; [|split; [|exact Ha]]; rewrite Hq; unfold kept.
  - destruct (is_aside (mf o (ms_rem s))); [rewrite app_nil_r; exact Hm|].
    destruct (m_updated (mf o (ms_rem s))) as [u|] eqn:Eu; [|rewrite app_nil_r; exact Hm].
    cbn [push qmap]. unfold upsert.
    rewrite Hm, (I_id_oid _ _ _ _ Hid Eu), remove_key_idem. reflexivity.
  - destruct (is_aside (mf o (ms_rem s))); [cbn [ids map]; rewrite app_nil_r; reflexivity|].
    destruct (m_updated (mf o (ms_rem s))) as [u|] eqn:Eu; [reflexivity|].
    cbn [ids map]; rewrite app_nil_r; reflexivity.
Qed.

Lemma next_lookup taker s o q' :
  I_id mf -> NoDup (ids (book s)) -> pop (lq (ms_lvl s)) = (Some o, q') ->
  let r := mf o (ms_rem s) in
  let s' := next taker s o q' in
  NoDup (ids (book s')) /\
  lookup (oid_of o) (book s) = Some o /\
  forall k, lookup k (book s') =
            if oid_eqb k (oid_of o) then (if is_aside r then Some o else m_updated r)
            else lookup k (book s).
Proof.
  intros Hid Hnd Hpop. cbv zeta.
  destruct (next_book taker s o q' Hid Hpop) as (Hm & _ & Ha). cbv zeta in Hm, Ha.
  destruct (pop_Some _ _ _ Hpop) as (sk & _ & _ & Hl & _).
  unfold book in *. rewrite Hm, Ha.
  set (m := qmap (lq (ms_lvl s))) in *. set (a := ms_aside s) in *.
  set (id := oid_of o) in *. set (r := mf o (ms_rem s)) in *.
  assert (Hrest : NoDup (ids (remove_key id m ++ a))) by (apply NoDup_ids_filter_app; exact Hnd).
  assert (Hnot : ~ In id (ids (remove_key id m ++ a))).
  { rewrite ids_app. intros Hin. apply in_app_or in Hin. destruct Hin as [Hin|Hin].
    - apply In_ids_remove_key in Hin. destruct Hin as [_ Hne]. congruence.
    - rewrite ids_app in Hnd. apply (lookup_In_ids) in Hl.
      clear - Hnd Hl Hin. induction (ids m) as [|y ys IH]; [destruct Hl|].
      cbn [app] in Hnd. inversion Hnd as [|? ? Hy Hnd']; subst. destruct Hl as [->|Hl].
      + apply Hy. apply in_or_app. right. exact Hin.
      + apply IH; assumption. }
  assert (Hla : lookup id a = None).
  { apply lookup_None. intros Hin. apply Hnot. rewrite ids_app. apply in_or_app. right. exact Hin. }
  split; [|split].
  - unfold kept, put_aside. destruct (is_aside r).
    + cbn [app]. rewrite app_nil_r, app_assoc.
      replace ((remove_key id m ++ a) ++ [o]) with ((remove_key id m ++ a) ++ o :: []) by reflexivity.
      apply NoDup_ids_insert; rewrite app_nil_r; assumption.
    + rewrite app_nil_r. destruct (m_updated r) as [u|] eqn:Eu.
      * rewrite <- app_assoc. cbn [app]. apply NoDup_ids_insert; [exact Hrest|].
        rewrite (I_id_oid _ _ _ _ Hid Eu). exact Hnot.
      * rewrite app_nil_r. exact Hrest.
  - rewrite lookup_app, Hl. reflexivity.
  - intros k. rewrite !lookup_app, lookup_remove_key. rewrite (oid_eqb_sym id k).
    destruct (oid_eqb k id) eqn:Ek.
    + apply oid_eqb_eq in Ek. subst k. rewrite Hla. unfold kept, put_aside.
      destruct (is_aside r); cbn [lookup]; [rewrite oid_eqb_refl; reflexivity|].
      destruct (m_updated r) as [u|] eqn:Eu; cbn [lookup]; [|reflexivity].
      rewrite (I_id_oid _ _ _ _ Hid Eu). fold id. rewrite oid_eqb_refl. reflexivity.
    + destruct (lookup k m) as [x|]; [reflexivity|].
      assert (Hk : lookup k (kept r) = None).
      { unfold kept. destruct (is_aside r); [reflexivity|].
        destruct (m_updated r) as [u|] eqn:Eu; [|reflexivity]. cbn [lookup].
        rewrite (I_id_oid _ _ _ _ Hid Eu). fold id. rewrite Ek. reflexivity. }
      rewrite Hk. destruct (lookup k a) as [x|]; [reflexivity|].
      unfold put_aside. destruct (is_aside r); [|reflexivity]. cbn [lookup]. fold id. rewrite Ek. reflexivity.
Qed.

Lemma stop_book s q' : pop (lq (ms_lvl s)) = (None, q') -> book (stop s q') = book s.
Proof. intros H. apply pop_None in H. destruct H as [-> _]. reflexivity. Qed.

(* [finish] pushes the set-aside orders back: the final map is the book *)
Lemma finish_resting s :
  NoDup (ids (book s)) -> resting (fst (fst (finish s))) = book s.
Proof.
  intros H. unfold finish, resting, book. cbn [fst set_queue lq].
  apply (fold_push_fresh (ms_aside s) (lq (ms_lvl s)) H).
Qed.

Lemma finish_result s :
  let r := snd (finish s) in
  r_txs r = r_txs (ms_res s) /\ r_filled r = r_filled (ms_res s) /\
  r_remaining r = ms_rem s /\ r_complete r = (ms_rem s =? 0) /\ r_taker r = r_taker (ms_res s) /\
  snd (fst (finish s)) = ms_gen s /\ price (fst (fst (finish s))) = price (ms_lvl s).
Proof. unfold finish. cbn. repeat split. Qed.

(* the invariant rule for the loop *)
Lemma match_loop_inv (P Q : mstate -> Prop) taker :
  (forall s o q', P s -> ms_rem s <> 0 -> pop (lq (ms_lvl s)) = (Some o, q') ->
                  P (next taker s o q')) ->
  (forall s, P s -> ms_rem s = 0 -> Q s) ->
  (forall s q', P s -> ms_rem s <> 0 -> pop (lq (ms_lvl s)) = (None, q') -> Q (stop s q')) ->
  forall fuel s s', P s -> match_loop mf fuel taker s = Some s' -> Q s'.
Proof.
  intros Hstep Hdone Hstop. induction fuel as [|f IH]; intros s s' HP.
  - rewrite match_loop_0. destruct (ms_rem s =? 0) eqn:E; [|discriminate].
    intros H; inversion H; subst. apply Hdone; [exact HP | lia].
  - rewrite match_loop_S. destruct (ms_rem s =? 0) eqn:E.
    + intros H; inversion H; subst. apply Hdone; [exact HP | lia].
    + destruct (pop (lq (ms_lvl s))) as [[o|] q'] eqn:Ep.
      * apply IH. apply Hstep; [exact HP | lia | exact Ep].
      * intros H; inversion H; subst. apply Hstop; [exact HP | lia | exact Ep].
Qed.

End Loop.
