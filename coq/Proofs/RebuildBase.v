(* RebuildBase.v — finite-map, ticket-queue, sum and timestamp-sort lemmas used by
   Proofs/RebuildProofs.v (properties C10 and C11).  Nothing here mentions levels. *)
From PL Require Import Model.Level Spec.Hist.
From Coq Require Import Lia ZifyBool ZifyN Sorted Permutation.
Local Open Scope N_scope.

(* ------------------------------------------------------------------ *)
(* identifiers                                                         *)

Lemma oid_eqb_eq a b : oid_eqb a b = true <-> a = b.
Proof.
  destruct a as [x|x], b as [y|y]; cbn [oid_eqb]; split; intro H;
    try discriminate; try (apply N.eqb_eq in H; congruence);
    inversion H; apply N.eqb_refl.
Qed.

Lemma oid_eqb_refl a : oid_eqb a a = true.
Proof. apply oid_eqb_eq; reflexivity. Qed.

Lemma oid_eqb_neq a b : oid_eqb a b = false <-> a <> b.
Proof.
  split.
  - intros H E. apply oid_eqb_eq in E. congruence.
  - intros H. destruct (oid_eqb a b) eqn:E; [|reflexivity].
    apply oid_eqb_eq in E. contradiction.
Qed.

Lemma oid_eqb_sym a b : oid_eqb a b = oid_eqb b a.
Proof.
  destruct (oid_eqb b a) eqn:E.
  - apply oid_eqb_eq in E. subst. apply oid_eqb_refl.
  - apply oid_eqb_neq in E. apply oid_eqb_neq. congruence.
Qed.

Lemma oid_eq_dec (a b : oid) : {a = b} + {a <> b}.
Proof.
  destruct (oid_eqb a b) eqn:E.
  - left. apply oid_eqb_eq; assumption.
  - right. apply oid_eqb_neq; assumption.
Qed.

(* ------------------------------------------------------------------ *)
(* machine arithmetic inside the 64-bit range                          *)

Lemma wadd_small a b : a + b < W -> wadd a b = a + b.
Proof. intros H. unfold wadd. apply N.mod_small. exact H. Qed.

Lemma sat_add_small a b : a + b < W -> sat_add a b = a + b.
Proof. intros H. unfold sat_add. lia. Qed.

(* ------------------------------------------------------------------ *)
(* sums                                                                *)

Lemma sumv_cons o m : sumv (o :: m) = vis o + sumv m.
Proof. reflexivity. Qed.
Lemma sumh_cons o m : sumh (o :: m) = hid o + sumh m.
Proof. reflexivity. Qed.

Lemma sumv_perm m1 m2 : Permutation m1 m2 -> sumv m1 = sumv m2.
Proof.
  induction 1 as [|x a b H IH|x y a|a b c H1 IH1 H2 IH2].
  - reflexivity.
  - rewrite !sumv_cons, IH. reflexivity.
  - rewrite !sumv_cons. lia.
  - congruence.
Qed.

Lemma sumh_perm m1 m2 : Permutation m1 m2 -> sumh m1 = sumh m2.
Proof.
  induction 1 as [|x a b H IH|x y a|a b c H1 IH1 H2 IH2].
  - reflexivity.
  - rewrite !sumh_cons, IH. reflexivity.
  - rewrite !sumh_cons. lia.
  - congruence.
Qed.

(* folds with the three kinds of addition, inside the range *)
Lemma fold_sat_vis os : forall a,
  a + sumv os < W -> fold_left (fun a o => sat_add a (vis o)) os a = a + sumv os.
Proof.
  induction os as [|o os IH]; intros a H; cbn [fold_left].
  - cbn. lia.
  - rewrite sumv_cons in H. rewrite sat_add_small by lia.
    rewrite IH by lia. rewrite sumv_cons. lia.
Qed.

Lemma fold_sat_hid os : forall a,
  a + sumh os < W -> fold_left (fun a o => sat_add a (hid o)) os a = a + sumh os.
Proof.
  induction os as [|o os IH]; intros a H; cbn [fold_left].
  - cbn. lia.
  - rewrite sumh_cons in H. rewrite sat_add_small by lia.
    rewrite IH by lia. rewrite sumh_cons. lia.
Qed.

Lemma fold_wadd_vis os : forall a,
  a + sumv os < W -> fold_left (fun a o => wadd a (vis o)) os a = a + sumv os.
Proof.
  induction os as [|o os IH]; intros a H; cbn [fold_left].
  - cbn. lia.
  - rewrite sumv_cons in H. rewrite wadd_small by lia.
    rewrite IH by lia. rewrite sumv_cons. lia.
Qed.

Lemma fold_wadd_hid os : forall a,
  a + sumh os < W -> fold_left (fun a o => wadd a (hid o)) os a = a + sumh os.
Proof.
  induction os as [|o os IH]; intros a H; cbn [fold_left].
  - cbn. lia.
  - rewrite sumh_cons in H. rewrite wadd_small by lia.
    rewrite IH by lia. rewrite sumh_cons. lia.
Qed.

Lemma fold_wadd_one (os : list order) : forall a,
  a + N.of_nat (length os) < W ->
  fold_left (fun a (_ : order) => wadd a 1) os a = a + N.of_nat (length os).
Proof.
  induction os as [|o os IH]; intros a H; cbn [fold_left].
  - cbn. lia.
  - cbn [length] in H. rewrite wadd_small by lia.
    rewrite IH by lia. cbn [length]. lia.
Qed.

(* ------------------------------------------------------------------ *)
(* the id -> order map                                                 *)

(* "the same finite map" *)
Definition meq (m1 m2 : list order) : Prop := forall k, lookup k m1 = lookup k m2.

Lemma meq_refl m : meq m m.
Proof. intro; reflexivity. Qed.
Lemma meq_sym m1 m2 : meq m1 m2 -> meq m2 m1.
Proof. intros H k; symmetry; apply H. Qed.
Lemma meq_trans m1 m2 m3 : meq m1 m2 -> meq m2 m3 -> meq m1 m3.
Proof. intros H1 H2 k; rewrite H1; apply H2. Qed.

Lemma lookup_some k m o : lookup k m = Some o -> In o m /\ oid_of o = k.
Proof.
  induction m as [|x m IH]; cbn [lookup]; intros H; [discriminate|].
  destruct (oid_eqb k (oid_of x)) eqn:E.
  - inversion H; subst. apply oid_eqb_eq in E. split; [left; reflexivity|congruence].
  - destruct (IH H) as [Hin Hk]. split; [right; assumption|assumption].
Qed.

Lemma lookup_none k m : lookup k m = None <-> ~ In k (ids m).
Proof.
  induction m as [|x m IH]; cbn [lookup ids map].
  - split; [intros _ []|reflexivity].
  - destruct (oid_eqb k (oid_of x)) eqn:E.
    + apply oid_eqb_eq in E. split; [discriminate|]. intros H. exfalso. apply H. left. congruence.
    + apply oid_eqb_neq in E. fold (ids m). rewrite IH. split.
      * intros H [H1|H1]; [congruence|contradiction].
      * intros H H1. apply H. right. assumption.
Qed.

Lemma lookup_in_nodup m o : NoDup (ids m) -> In o m -> lookup (oid_of o) m = Some o.
Proof.
  induction m as [|x m IH]; cbn [ids map lookup]; intros Hnd Hin; [destruct Hin|].
  inversion Hnd as [|? ? Hx Hnd']; subst.
  destruct Hin as [->|Hin].
  - rewrite oid_eqb_refl. reflexivity.
  - destruct (oid_eqb (oid_of o) (oid_of x)) eqn:E.
    + apply oid_eqb_eq in E. exfalso. apply Hx. rewrite <- E. apply in_map. assumption.
    + apply IH; assumption.
Qed.

Lemma lookup_live_in k m : lookup k m <> None -> In k (ids m).
Proof.
  intros H. destruct (lookup k m) as [o|] eqn:E; [|congruence].
  apply lookup_some in E. destruct E as [Hin <-]. apply in_map. assumption.
Qed.

Lemma nodup_ids_nodup m : NoDup (ids m) -> NoDup m.
Proof. apply NoDup_map_inv. Qed.

Lemma lookup_remove_key k j m :
  lookup k (remove_key j m) = if oid_eqb k j then None else lookup k m.
Proof.
  induction m as [|x m IH]; cbn [remove_key filter lookup].
  - destruct (oid_eqb k j); reflexivity.
  - fold (remove_key j m).
    destruct (oid_eqb j (oid_of x)) eqn:Ej; cbn [negb].
    + rewrite IH. apply oid_eqb_eq in Ej. subst j.
      destruct (oid_eqb k (oid_of x)); reflexivity.
    + cbn [lookup]. rewrite IH.
      destruct (oid_eqb k (oid_of x)) eqn:Ek; [|reflexivity].
      apply oid_eqb_eq in Ek. subst k. rewrite oid_eqb_sym, Ej. reflexivity.
Qed.

Lemma lookup_app k m1 m2 :
  lookup k (m1 ++ m2) = match lookup k m1 with Some o => Some o | None => lookup k m2 end.
Proof.
  induction m1 as [|x m1 IH]; cbn [app lookup]; [reflexivity|].
  destruct (oid_eqb k (oid_of x)); [reflexivity|apply IH].
Qed.

Lemma lookup_upsert k o m :
  lookup k (upsert o m) = if oid_eqb k (oid_of o) then Some o else lookup k m.
Proof.
  unfold upsert. rewrite lookup_app, lookup_remove_key. cbn [lookup].
  destruct (oid_eqb k (oid_of o)); [reflexivity|].
  destruct (lookup k m); reflexivity.
Qed.

Lemma ids_remove_key k m :
  ids (remove_key k m) = filter (fun j => negb (oid_eqb k j)) (ids m).
Proof.
  induction m as [|x m IH]; cbn [remove_key filter ids map]; [reflexivity|].
  fold (remove_key k m). fold (ids m).
  destruct (negb (oid_eqb k (oid_of x))); cbn [ids map]; fold (ids (remove_key k m));
    rewrite IH; reflexivity.
Qed.

Lemma nodup_remove_key k m : NoDup (ids m) -> NoDup (ids (remove_key k m)).
Proof. intros H. rewrite ids_remove_key. apply NoDup_filter. assumption. Qed.

Lemma in_ids_remove_key j k m : In j (ids (remove_key k m)) <-> In j (ids m) /\ j <> k.
Proof.
  rewrite ids_remove_key, filter_In. split; intros [H1 H2]; split; try assumption.
  - intros ->. rewrite oid_eqb_refl in H2. discriminate.
  - apply Bool.negb_true_iff. apply oid_eqb_neq. congruence.
Qed.

Lemma remove_key_absent k m : ~ In k (ids m) -> remove_key k m = m.
Proof.
  induction m as [|x m IH]; cbn [remove_key filter ids map]; intros H; [reflexivity|].
  fold (remove_key k m).
  destruct (oid_eqb k (oid_of x)) eqn:E.
  - apply oid_eqb_eq in E. exfalso. apply H. left. congruence.
  - cbn [negb]. rewrite IH; [reflexivity|]. intros H1. apply H. right. assumption.
Qed.

Lemma upsert_absent o m : ~ In (oid_of o) (ids m) -> upsert o m = m ++ [o].
Proof. intros H. unfold upsert. rewrite remove_key_absent by assumption. reflexivity. Qed.

Lemma ids_app m1 m2 : ids (m1 ++ m2) = ids m1 ++ ids m2.
Proof. apply map_app. Qed.

Lemma nodup_snoc (A : Type) (l : list A) (x : A) : NoDup l -> ~ In x l -> NoDup (l ++ [x]).
Proof.
  induction l as [|y l IH]; cbn [app]; intros Hnd Hx.
  - constructor; [intros []|constructor].
  - inversion Hnd as [|? ? Hy Hnd']; subst. constructor.
    + rewrite in_app_iff. intros [H|[H|[]]]; [contradiction|]. subst. apply Hx. left. reflexivity.
    + apply IH; [assumption|]. intros H. apply Hx. right. assumption.
Qed.

Lemma nodup_snoc_inv (A : Type) (l : list A) (x : A) : NoDup (l ++ [x]) -> NoDup l /\ ~ In x l.
Proof.
  induction l as [|y l IH]; cbn [app]; intros Hnd.
  - split; [constructor|intros []].
  - inversion Hnd as [|? ? Hy Hnd']; subst. destruct (IH Hnd') as [H1 H2]. split.
    + constructor; [|assumption]. intros H. apply Hy. rewrite in_app_iff. left. assumption.
    + intros [->|H]; [|contradiction]. apply Hy. rewrite in_app_iff. right. left. reflexivity.
Qed.

Lemma nodup_app_l (A : Type) (l1 l2 : list A) : NoDup (l1 ++ l2) -> NoDup l1.
Proof.
  induction l1 as [|x l1 IH]; cbn [app]; intros H; [constructor|].
  inversion H as [|? ? Hx Hnd]; subst. constructor; [|apply IH; assumption].
  intros Hin. apply Hx. rewrite in_app_iff. left. assumption.
Qed.

Lemma nodup_upsert o m : NoDup (ids m) -> NoDup (ids (upsert o m)).
Proof.
  intros H. unfold upsert. rewrite ids_app. cbn [ids map]. apply nodup_snoc.
  - apply nodup_remove_key. assumption.
  - intros H1. apply in_ids_remove_key in H1. destruct H1 as [_ H1]. congruence.
Qed.

Lemma meq_remove_key k m1 m2 : meq m1 m2 -> meq (remove_key k m1) (remove_key k m2).
Proof. intros H j. rewrite !lookup_remove_key, H. reflexivity. Qed.

Lemma meq_upsert o m1 m2 : meq m1 m2 -> meq (upsert o m1) (upsert o m2).
Proof. intros H j. rewrite !lookup_upsert, H. reflexivity. Qed.

Lemma meq_in m1 m2 o : NoDup (ids m1) -> meq m1 m2 -> In o m1 -> In o m2.
Proof.
  intros Hnd H Hin. apply (lookup_in_nodup m1 o Hnd) in Hin. rewrite H in Hin.
  apply lookup_some in Hin. apply Hin.
Qed.

(* Two association lists without duplicate keys that denote the same map hold the
   same entries. *)
Lemma meq_perm m1 m2 : NoDup (ids m1) -> NoDup (ids m2) -> meq m1 m2 -> Permutation m1 m2.
Proof.
  intros H1 H2 H. apply NoDup_Permutation; try (apply nodup_ids_nodup; assumption).
  intros o. split; [apply meq_in|apply meq_in]; try assumption. apply meq_sym; assumption.
Qed.

Lemma perm_ids m1 m2 : Permutation m1 m2 -> Permutation (ids m1) (ids m2).
Proof. apply Permutation_map. Qed.

Lemma perm_meq m1 m2 : NoDup (ids m1) -> Permutation m1 m2 -> meq m1 m2.
Proof.
  intros Hnd HP k.
  assert (Hnd2 : NoDup (ids m2)) by (eapply Permutation_NoDup; [apply perm_ids; eassumption|assumption]).
  destruct (lookup k m1) as [o|] eqn:E.
  - apply lookup_some in E. destruct E as [Hin <-]. symmetry.
    apply lookup_in_nodup; [assumption|]. eapply Permutation_in; eassumption.
  - symmetry. apply lookup_none. apply lookup_none in E. intros H. apply E.
    eapply Permutation_in; [apply Permutation_sym, perm_ids; eassumption|assumption].
Qed.

(* ------------------------------------------------------------------ *)
(* the queue: push / pop / remove on "the same finite map"             *)

Definition QSim (q1 q2 : queue) : Prop :=
  tickets q1 = tickets q2 /\ NoDup (ids (qmap q1)) /\ NoDup (ids (qmap q2)) /\
  meq (qmap q1) (qmap q2).

Lemma QSim_push q1 q2 o : QSim q1 q2 -> QSim (push q1 o) (push q2 o).
Proof.
  intros (Ht & H1 & H2 & Hm). unfold push, QSim; cbn [qmap tickets].
  rewrite Ht. repeat split; try (apply nodup_upsert; assumption).
  apply meq_upsert. assumption.
Qed.

Lemma QSim_fold_push os : forall q1 q2, QSim q1 q2 -> QSim (fold_left push os q1) (fold_left push os q2).
Proof.
  induction os as [|o os IH]; intros q1 q2 H; cbn [fold_left]; [assumption|].
  apply IH. apply QSim_push. assumption.
Qed.

Lemma pop_t_meq t : forall m1 m2, meq m1 m2 ->
  match pop_t m1 t, pop_t m2 t with
  | Some (o1, m1', t1), Some (o2, m2', t2) =>
      o1 = o2 /\ t1 = t2 /\ meq m1' m2' /\
      (NoDup (ids m1) -> NoDup (ids m1')) /\ (NoDup (ids m2) -> NoDup (ids m2'))
  | None, None => True
  | _, _ => False
  end.
Proof.
  induction t as [|k t IH]; intros m1 m2 H; cbn [pop_t]; [exact I|].
  rewrite <- (H k). destruct (lookup k m1) as [o|] eqn:E.
  - repeat split; try (apply nodup_remove_key). apply meq_remove_key. assumption.
  - apply IH. assumption.
Qed.

Lemma QSim_pop q1 q2 : QSim q1 q2 -> fst (pop q1) = fst (pop q2) /\ QSim (snd (pop q1)) (snd (pop q2)).
Proof.
  intros (Ht & H1 & H2 & Hm). unfold pop. rewrite <- Ht.
  pose proof (pop_t_meq (tickets q1) _ _ Hm) as P.
  destruct (pop_t (qmap q1) (tickets q1)) as [[[o1 m1'] t1]|];
    destruct (pop_t (qmap q2) (tickets q1)) as [[[o2 m2'] t2]|]; try contradiction.
  - destruct P as (-> & -> & Hm' & N1 & N2). cbn [fst snd]. split; [reflexivity|].
    unfold QSim; cbn [qmap tickets]. auto.
  - cbn [fst snd]. split; [reflexivity|]. unfold QSim; cbn [qmap tickets]. auto.
Qed.

Lemma QSim_qremove q1 q2 k : QSim q1 q2 ->
  fst (qremove q1 k) = fst (qremove q2 k) /\ QSim (snd (qremove q1 k)) (snd (qremove q2 k)).
Proof.
  intros (Ht & H1 & H2 & Hm). unfold qremove. rewrite <- (Hm k).
  destruct (lookup k (qmap q1)) as [o|]; cbn [fst snd].
  - split; [reflexivity|]. unfold QSim; cbn [qmap tickets].
    repeat split; try assumption; try (apply nodup_remove_key; assumption).
    apply meq_remove_key. assumption.
  - split; [reflexivity|]. unfold QSim. auto.
Qed.

(* pushing orders with pairwise distinct, fresh ids: the map is the list itself *)
Lemma fold_push_fresh os : forall q,
  NoDup (ids (qmap q ++ os)) ->
  fold_left push os q = mkQueue (qmap q ++ os) (tickets q ++ ids os).
Proof.
  induction os as [|o os IH]; intros q H; cbn [fold_left].
  - cbn [ids map]. rewrite !app_nil_r. destruct q; reflexivity.
  - replace (qmap q ++ o :: os) with ((qmap q ++ [o]) ++ os) in H |- *
      by (rewrite <- app_assoc; reflexivity).
    assert (Hq : NoDup (ids (qmap q ++ [o]))).
    { rewrite ids_app in H. eapply nodup_app_l. exact H. }
    assert (Ho : ~ In (oid_of o) (ids (qmap q))).
    { rewrite ids_app in Hq. cbn [ids map] in Hq. apply nodup_snoc_inv in Hq. apply Hq. }
    rewrite IH.
    + unfold push; cbn [qmap tickets]. rewrite upsert_absent by assumption.
      cbn [ids map]. rewrite <- (app_assoc (tickets q)). reflexivity.
    + unfold push; cbn [qmap]. rewrite upsert_absent by assumption. assumption.
Qed.

Lemma from_vec_nodup os : NoDup (ids os) -> from_vec os = mkQueue os (ids os).
Proof. intros H. unfold from_vec. rewrite fold_push_fresh; [reflexivity|exact H]. Qed.

(* in general the map built by pushes has no duplicate key, whatever the input *)
Lemma nodup_fold_push os : forall q, NoDup (ids (qmap q)) -> NoDup (ids (qmap (fold_left push os q))).
Proof.
  induction os as [|o os IH]; intros q H; cbn [fold_left]; [assumption|].
  apply IH. unfold push; cbn [qmap]. apply nodup_upsert. assumption.
Qed.

Lemma nodup_from_vec os : NoDup (ids (qmap (from_vec os))).
Proof. apply nodup_fold_push. constructor. Qed.

(* ------------------------------------------------------------------ *)
(* the listing: stable insertion sort by timestamp                     *)

Definition ts_le (a b : order) : Prop := ts_of a <= ts_of b.

Lemma insert_ts_perm o l : Permutation (insert_ts o l) (o :: l).
Proof.
  induction l as [|x l IH]; cbn [insert_ts]; [apply Permutation_refl|].
  destruct (ts_of o <? ts_of x); [apply Permutation_refl|].
  eapply Permutation_trans; [apply perm_skip; exact IH|apply perm_swap].
Qed.

Lemma sort_ts_perm l : Permutation (sort_ts l) l.
Proof.
  induction l as [|x l IH]; cbn [sort_ts fold_right]; [constructor|].
  fold (sort_ts l). eapply Permutation_trans; [apply insert_ts_perm|]. apply perm_skip. exact IH.
Qed.

Lemma insert_ts_sorted o l : StronglySorted ts_le l -> StronglySorted ts_le (insert_ts o l).
Proof.
  induction l as [|x l IH]; cbn [insert_ts]; intros H.
  - constructor; [constructor|constructor].
  - inversion H as [|? ? Hl Hx]; subst.
    destruct (N.ltb_spec (ts_of o) (ts_of x)) as [Hlt|Hge].
    + constructor; [assumption|]. constructor; [unfold ts_le; lia|].
      rewrite Forall_forall in Hx |- *. intros y Hy. specialize (Hx y Hy). unfold ts_le in *. lia.
    + constructor; [apply IH; assumption|].
      rewrite Forall_forall in Hx |- *. intros y Hy.
      apply (Permutation_in _ (insert_ts_perm o l)) in Hy. destruct Hy as [<-|Hy].
      * exact Hge.
      * apply Hx; assumption.
Qed.

Lemma sort_ts_sorted l : StronglySorted ts_le (sort_ts l).
Proof.
  induction l as [|x l IH]; cbn [sort_ts fold_right]; [constructor|].
  fold (sort_ts l). apply insert_ts_sorted. exact IH.
Qed.

(* the three ways of saying "sorted" agree *)
Lemma strongly_sorted_ts_sorted l : StronglySorted ts_le l -> ts_sorted l.
Proof.
  induction 1 as [|x l Hl IH Hx]; intros i j oi oj Hij Hi Hj.
  - destruct i; discriminate.
  - destruct j as [|j]; [lia|]. cbn [nth_error] in Hj. destruct i as [|i].
    + cbn [nth_error] in Hi. inversion Hi; subst.
      rewrite Forall_forall in Hx. apply Hx. eapply nth_error_In; eassumption.
    + cbn [nth_error] in Hi. apply (IH i j); try assumption. lia.
Qed.

Lemma ts_sorted_strongly_sorted l : ts_sorted l -> StronglySorted ts_le l.
Proof.
  induction l as [|x l IH]; intros H; constructor.
  - apply IH. intros i j oi oj Hij Hi Hj. apply (H (S i) (S j)); [lia|assumption|assumption].
  - rewrite Forall_forall. intros y Hy. apply In_nth_error in Hy. destruct Hy as [j Hj].
    apply (H O (S j)); [lia|reflexivity|assumption].
Qed.

Lemma ts_le_trans : Relations_1.Transitive ts_le.
Proof. intros a b c; unfold ts_le; lia. Qed.

(* ------------------------------------------------------------------ *)
(* a weakly sorted permutation of a strictly sorted list is that list   *)

Lemma sorted_perm_unique (A : Type) (f : A -> N) (ys : list A) : forall xs,
  Permutation xs ys ->
  StronglySorted (fun a b => f a <= f b) xs ->
  StronglySorted (fun a b => f a < f b) ys ->
  xs = ys.
Proof.
  induction ys as [|y ys IH]; intros xs HP Hx Hy.
  - apply Permutation_sym, Permutation_nil in HP. assumption.
  - destruct xs as [|x xs]; [apply Permutation_nil in HP; discriminate|].
    inversion Hx as [|? ? Hxs Hxall]; subst. inversion Hy as [|? ? Hys Hyall]; subst.
    rewrite Forall_forall in Hxall, Hyall.
    assert (E : x = y).
    { assert (Hin : In x (y :: ys)) by (eapply Permutation_in; [exact HP|left; reflexivity]).
      destruct Hin as [->|Hin]; [reflexivity|].
      assert (Hin' : In y (x :: xs))
        by (eapply Permutation_in; [apply Permutation_sym; exact HP|left; reflexivity]).
      destruct Hin' as [->|Hin']; [reflexivity|].
      specialize (Hxall y Hin'). specialize (Hyall x Hin). cbv beta in *. lia. }
    subst y. f_equal. apply IH; try assumption. eapply Permutation_cons_inv; eassumption.
Qed.

Lemma strongly_sorted_map (A B : Type) (R : A -> A -> Prop) (R' : B -> B -> Prop) (g : A -> B) l :
  (forall a b, In a l -> In b l -> R a b -> R' (g a) (g b)) ->
  StronglySorted R l -> StronglySorted R' (map g l).
Proof.
  induction l as [|x l IH]; intros HR H; cbn [map]; [constructor|].
  inversion H as [|? ? Hl Hx]; subst. constructor.
  - apply IH; [|assumption]. intros a b Ha Hb. apply HR; right; assumption.
  - rewrite Forall_forall in Hx |- *. intros y Hy. apply in_map_iff in Hy.
    destruct Hy as (a & <- & Ha). apply HR; [left; reflexivity|right; assumption|apply Hx; assumption].
Qed.

Lemma strongly_sorted_map_inv (A B : Type) (R : A -> A -> Prop) (R' : B -> B -> Prop) (g : A -> B) l :
  (forall a b, R' (g a) (g b) -> R a b) ->
  StronglySorted R' (map g l) -> StronglySorted R l.
Proof.
  induction l as [|x l IH]; intros HR H; cbn [map] in H; [constructor|].
  inversion H as [|? ? Hl Hx]; subst. constructor.
  - apply IH; assumption.
  - rewrite Forall_forall in Hx |- *. intros y Hy. apply HR. apply Hx. apply in_map. assumption.
Qed.
